// Kani harnesses for daemon/src/event/export.rs (C09 propagation filters / attribute rewrite).
#![allow(unused_imports, dead_code, clippy::all)]

use super::*;
use std::sync::atomic::AtomicBool;

fn fixed_vec<T, const N: usize>(items: [T; N], len: usize) -> Vec<T> {
    assert!(len <= N);
    let p = Box::into_raw(Box::new(items)) as *mut T;
    unsafe { Vec::from_raw_parts(p, len, N) }
}

fn any_role() -> PeerRole {
    let r: u8 = kani::any();
    kani::assume(r < 5);
    match r {
        0 => PeerRole::Ebgp,
        1 => PeerRole::RsClient,
        2 => PeerRole::Ibgp,
        3 => PeerRole::IbgpRrClient,
        _ => PeerRole::ConfedEbgp,
    }
}

fn any_source() -> table::Source {
    let last: u8 = kani::any();
    table::Source::new(
        IpAddr::V4(Ipv4Addr::new(10, 0, 0, last)),
        IpAddr::V4(Ipv4Addr::new(10, 0, 0, 254)),
        kani::any(),
        kani::any(),
        Ipv4Addr::from(kani::any::<u32>()),
        any_role(),
    )
}

//@ id=C09 tier=quick cap=600
//@ fn: event::export::ibgp_split_horizon_suppress, rs_isolation_suppress, is_ibgp_learned
//@ bound: ALL (source role, source remote/local AS, destination role, cluster-id present/absent) combinations for a peer-learned source; unwind 4
//@ desc: a route learned from a non-client iBGP peer is never sent to another non-client iBGP peer (plain iBGP: never to any iBGP peer); a reflector sends client routes to everybody and non-client routes to clients only; routes never cross the route-server / non-route-server boundary; eBGP-learned routes are never suppressed by split horizon
#[kani::proof]
#[kani::unwind(4)]
fn c09_filters() {
    let src = any_source();
    let dest = any_role();
    let cluster: Option<Ipv4Addr> = if kani::any() {
        Some(Ipv4Addr::from(kani::any::<u32>()))
    } else {
        None
    };
    let ibgp_learned = src.remote_asn == src.local_asn;
    assert!(is_ibgp_learned(&src) == ibgp_learned);
    let dest_ibgp = matches!(dest, PeerRole::Ibgp | PeerRole::IbgpRrClient);
    let sh = ibgp_split_horizon_suppress(&src, dest, cluster);
    let want_sh = if !dest_ibgp || !ibgp_learned {
        false
    } else {
        match cluster {
            None => true,
            Some(_) => src.role != PeerRole::IbgpRrClient && dest == PeerRole::Ibgp,
        }
    };
    assert!(sh == want_sh);
    // the safety clauses of the statement, spelled out
    if ibgp_learned && src.role != PeerRole::IbgpRrClient && dest == PeerRole::Ibgp {
        assert!(sh); // non-client iBGP -> non-client iBGP: never
    }
    let rs = rs_isolation_suppress(&src, dest);
    assert!(rs == ((src.role == PeerRole::RsClient) != (dest == PeerRole::RsClient)));
    kani::cover!(sh && cluster.is_some());
    kani::cover!(!sh && ibgp_learned && dest_ibgp);
    kani::cover!(rs);
}

/// AS_PATH skeleton: leading segment of concrete count c0 (0 = empty path), optional second
/// segment of 1 ASN; types symbolic
fn as_path_skel(c0: usize, second: bool) -> (bgp::Attribute, [u8; 2], [u32; 3]) {
    let mut types = [0u8; 2];
    let mut asns = [0u32; 3];
    let mut v: Vec<u8> = Vec::with_capacity(2 + 4 * c0 + 6);
    if c0 > 0 {
        let t: u8 = kani::any();
        kani::assume(t >= 1 && t <= 4);
        types[0] = t;
        v.push(t);
        v.push(c0 as u8);
        let mut i = 0;
        while i < c0 {
            let a: u32 = if i < 2 { kani::any() } else { 64512 };
            if i < 2 {
                asns[i] = a;
            }
            let b = a.to_be_bytes();
            v.push(b[0]);
            v.push(b[1]);
            v.push(b[2]);
            v.push(b[3]);
            i += 1;
        }
    }
    if second {
        let t: u8 = kani::any();
        kani::assume(t >= 1 && t <= 4);
        types[1] = t;
        let a: u32 = kani::any();
        asns[2] = a;
        v.push(t);
        v.push(1);
        let b = a.to_be_bytes();
        v.push(b[0]);
        v.push(b[1]);
        v.push(b[2]);
        v.push(b[3]);
    }
    (
        bgp::Attribute::new_with_bin(bgp::Attribute::AS_PATH, v).unwrap(),
        types,
        asns,
    )
}

fn prepend_case(c0: usize, second: bool) {
    let (a, types, _asns) = as_path_skel(c0, second);
    let asn: u32 = kani::any();
    let old_len = a.binary().unwrap().len();
    let old_hops = a.as_path_length();
    let p = a.as_path_prepend(asn);
    let nb = p.binary().unwrap();
    // the new AS is the first AS of a leading AS_SEQUENCE, exactly once
    assert!(nb.len() >= 6);
    assert!(nb[0] == bgp::Attribute::AS_PATH_TYPE_SEQ && nb[1] >= 1);
    assert!(u32::from_be_bytes([nb[2], nb[3], nb[4], nb[5]]) == asn);
    assert!(p.as_path_length() == old_hops + 1);
    // either merged into the existing leading sequence (+4 bytes) or a new segment (+6 bytes)
    let merged = c0 > 0 && c0 < 255 && types[0] == bgp::Attribute::AS_PATH_TYPE_SEQ;
    assert!(nb.len() == old_len + if merged { 4 } else { 6 });
    if merged {
        assert!(nb[1] as usize == c0 + 1);
    } else {
        assert!(nb[1] == 1);
    }
    kani::cover!(merged);
    kani::cover!(!merged);
    core::mem::forget(p);
    core::mem::forget(a);
}

//@ id=C09 tier=quick cap=900
//@ fn: bgp::Attribute::as_path_prepend, bgp::Attribute::as_path_length
//@ bound: AS_PATH skeletons: empty path; leading segment of 2 ASNs (+ optional second segment), segment types symbolic (SET/SEQ/CONFED); unwind 12
//@ desc: prepend puts the AS exactly once at the head of a leading AS_SEQUENCE: merged into an existing leading sequence, otherwise a new segment; hop count grows by one
#[kani::proof]
#[kani::unwind(12)]
fn c09_prepend_small() {
    let k: u8 = kani::any();
    kani::assume(k < 3);
    match k {
        0 => prepend_case(0, false),
        1 => prepend_case(2, false),
        _ => prepend_case(2, true),
    }
}

//@ id=C09 tier=quick cap=900
//@ fn: bgp::Attribute::as_path_prepend
//@ bound: leading segment with the maximum count 255 (1022 bytes), type symbolic; unwind 4
//@ desc: a full 255-AS leading sequence is not overflowed: a new one-AS segment is put in front
#[kani::proof]
#[kani::unwind(4)]
fn c09_prepend_full_segment() {
    let t: u8 = kani::any();
    kani::assume(t >= 1 && t <= 4);
    let mut v = vec![0u8; 2 + 4 * 255];
    v[0] = t;
    v[1] = 255;
    let a = bgp::Attribute::new_with_bin(bgp::Attribute::AS_PATH, v).unwrap();
    let asn: u32 = kani::any();
    let p = a.as_path_prepend(asn);
    let nb = p.binary().unwrap();
    assert!(nb.len() == 2 + 4 * 255 + 6);
    assert!(nb[0] == bgp::Attribute::AS_PATH_TYPE_SEQ && nb[1] == 1);
    assert!(u32::from_be_bytes([nb[2], nb[3], nb[4], nb[5]]) == asn);
    assert!(nb[6] == t && nb[7] == 255);
    kani::cover!(t == 2);
    core::mem::forget(p);
    core::mem::forget(a);
}

//@ id=C09 tier=quick cap=900
//@ fn: event::export::is_as_loop, bgp::Attribute::as_path_count
//@ bound: AS_PATH skeleton [1 ASN][1 ASN] with symbolic types and ASNs, local AS and confederation id symbolic; unwind 8
//@ desc: a route is a loop iff the local AS - or the (distinct, non-zero) confederation id - occurs anywhere in the AS_PATH
#[kani::proof]
#[kani::unwind(8)]
fn c09_as_loop() {
    let (a, _t, asns) = as_path_skel(1, true);
    let local: u32 = kani::any();
    let confed: u32 = kani::any();
    let attrs = Arc::new(fixed_vec([a], 1));
    let keep = attrs.clone();
    let got = is_as_loop(&attrs, local, confed);
    // skeleton [1 ASN][1 ASN]: slots 0 and 2 are in use (slot 1 belongs to a 2-ASN leading segment)
    let has = |x: u32| asns[0] == x || asns[2] == x;
    let want = has(local) || (confed != 0 && confed != local && has(confed));
    assert!(got == want);
    // no AS_PATH at all: never a loop
    let none: Arc<Vec<bgp::Attribute>> = Arc::new(Vec::new());
    let keep2 = none.clone();
    assert!(!is_as_loop(&none, local, confed));
    kani::cover!(got && !has(local));
    kani::cover!(!got);
    core::mem::forget((attrs, keep, none, keep2));
}

//@ id=C09 tier=thorough cap=600 expect=fail
//@ fn: event::export::ibgp_split_horizon_suppress
//@ bound: as c09_filters
//@ desc: vacuity twin - claims split horizon never suppresses; must be refuted
#[kani::proof]
#[kani::unwind(4)]
fn c09_filters_twin_must_fail() {
    let src = any_source();
    assert!(!ibgp_split_horizon_suppress(&src, any_role(), None));
}

//@ id=C09 tier=quick cap=900 mem=24
//@ fn: event::export::PeerExportContext::export_attrs (route-server-client role: pass-through + unknown-attribute pass), bgp::Attribute::with_partial_bit, is_opaque, is_transitive
//@ bound: attribute list [ORIGIN, X] where X is an UNKNOWN (opaque) optional attribute with symbolic code, symbolic flags (transitive or not, Partial set or clear) and 2 symbolic value bytes; unwind 6
//@ desc: unknown transitive attributes are forwarded with the Partial bit SET (value and code untouched), unknown non-transitive ones are dropped, known attributes are untouched
#[kani::proof]
#[kani::unwind(6)]
fn c09_export_unknown_attr() {
    let ctx = PeerExportContext {
        role: PeerRole::RsClient,
        local_asn: kani::any(),
        local_addr: IpAddr::V4(Ipv4Addr::new(10, 0, 0, 254)),
        link_addr: None,
        confederation_id: 0,
    };
    let code: u8 = kani::any();
    kani::assume(bgp::Attribute::canonical_flags(code).is_none());
    let flags: u8 = kani::any();
    kani::assume(flags & 0x80 != 0); // optional (the decoder stores only optional unknown attributes)
    let val: [u8; 2] = kani::any();
    let x = bgp::Attribute::new_opaque(code, flags, fixed_vec(val, 2));
    let origin = bgp::Attribute::new_with_value(bgp::Attribute::ORIGIN, 0).unwrap();
    let attrs = Arc::new(fixed_vec([origin, x], 2));
    let keep = attrs.clone();
    let out = ctx.export_attrs(&attrs);
    let transitive = flags & 0x40 != 0;
    let mut n_origin = 0;
    let mut n_x = 0;
    let mut i = 0;
    while i < out.len() {
        let a = &out[i];
        if a.code() == bgp::Attribute::ORIGIN {
            n_origin += 1;
            assert!(a.value() == Some(0));
        } else {
            n_x += 1;
            assert!(a.code() == code);
            assert!(a.flags() == flags | bgp::Attribute::FLAG_PARTIAL);
            let b = a.binary().unwrap();
            assert!(b.len() == 2 && b[0] == val[0] && b[1] == val[1]);
        }
        i += 1;
    }
    assert!(n_origin == 1);
    assert!(n_x == if transitive { 1 } else { 0 });
    kani::cover!(transitive && flags & 0x20 == 0);
    kani::cover!(!transitive);
    core::mem::forget((out, attrs, keep));
}

//@ id=C09 tier=thorough cap=1200
//@ fn: bgp::Attribute::as_path_strip_confed, bgp::Attribute::as_path_prepend_confed, bgp::Attribute::as_path_length
//@ bound: AS_PATH skeleton [2 ASNs][1 ASN] with symbolic segment types (so every mix of SET/SEQ/CONFED_SEQ/CONFED_SET) and ASNs; unwind 12
//@ desc: strip_confed removes exactly the confederation segments and keeps the others byte for byte in order (hop count unchanged); prepend_confed puts the member AS once at the head of a leading AS_CONFED_SEQUENCE and never changes the hop count
#[kani::proof]
#[kani::unwind(12)]
fn c09_confed_edits() {
    let (a, types, asns) = as_path_skel(2, true);
    let hops = a.as_path_length();
    let s = a.as_path_strip_confed();
    let sb = s.binary().unwrap();
    let keep0 = types[0] == 1 || types[0] == 2;
    let keep1 = types[1] == 1 || types[1] == 2;
    let want_len = (if keep0 { 10 } else { 0 }) + (if keep1 { 6 } else { 0 });
    assert!(sb.len() == want_len);
    assert!(s.as_path_length() == hops);
    if keep0 {
        assert!(sb[0] == types[0] && sb[1] == 2);
        assert!(u32::from_be_bytes([sb[2], sb[3], sb[4], sb[5]]) == asns[0]);
        assert!(u32::from_be_bytes([sb[6], sb[7], sb[8], sb[9]]) == asns[1]);
    }
    if keep1 {
        let o = if keep0 { 10 } else { 0 };
        assert!(sb[o] == types[1] && sb[o + 1] == 1);
        assert!(u32::from_be_bytes([sb[o + 2], sb[o + 3], sb[o + 4], sb[o + 5]]) == asns[2]);
    }
    let member: u32 = kani::any();
    let p = a.as_path_prepend_confed(member);
    let pb = p.binary().unwrap();
    assert!(pb[0] == bgp::Attribute::AS_PATH_TYPE_CONFED_SEQ);
    assert!(u32::from_be_bytes([pb[2], pb[3], pb[4], pb[5]]) == member);
    assert!(p.as_path_length() == hops);
    let merged = types[0] == bgp::Attribute::AS_PATH_TYPE_CONFED_SEQ;
    assert!(pb.len() == 16 + if merged { 4 } else { 6 });
    assert!(pb[1] == if merged { 3 } else { 1 });
    kani::cover!(keep0 && !keep1);
    kani::cover!(!keep0 && !keep1);
    kani::cover!(merged);
    core::mem::forget((a, s, p));
}

//@ id=C09 tier=quick cap=1200 mem=24
//@ fn: event::export::with_llgr_stale_community
//@ bound: attribute list [COMMUNITY with 2 symbolic communities (8 bytes)]; unwind 12
//@ desc: afterwards the COMMUNITY attribute contains LLGR_STALE (0xFFFF0006) as an ALIGNED 4-byte community, exactly once more than before if it was absent, and every original community is kept in order
#[kani::proof]
#[kani::unwind(12)]
fn c09_llgr_stale_community() {
    let cb: [u8; 8] = kani::any();
    let comm = bgp::Attribute::new_with_bin(bgp::Attribute::COMMUNITY, fixed_vec(cb, 8)).unwrap();
    let attrs = Arc::new(fixed_vec([comm], 1));
    let keep = attrs.clone();
    let out = with_llgr_stale_community(&attrs);
    let c0 = u32::from_be_bytes([cb[0], cb[1], cb[2], cb[3]]);
    let c1 = u32::from_be_bytes([cb[4], cb[5], cb[6], cb[7]]);
    let had = c0 == 0xffff_0006 || c1 == 0xffff_0006;
    assert!(out.len() == 1 && out[0].code() == bgp::Attribute::COMMUNITY);
    let b = out[0].binary().unwrap();
    assert!(b.len() == if had { 8 } else { 12 });
    assert!(b[0] == cb[0] && b[3] == cb[3] && b[4] == cb[4] && b[7] == cb[7]);
    if !had {
        assert!(b[8] == 0xff && b[9] == 0xff && b[10] == 0x00 && b[11] == 0x06);
    }
    kani::cover!(had);
    kani::cover!(!had && cb[2] == 0xff && cb[3] == 0xff && cb[4] == 0 && cb[5] == 6);
    core::mem::forget((out, attrs, keep));
}
