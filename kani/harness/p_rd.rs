// Kani harnesses for packet/src/rd.rs (route distinguisher: building block of every VPN / EVPN / MUP NLRI codec).
#![allow(unused_imports, dead_code, clippy::all)]

use super::*;

struct RdBuf {
    buf: [u8; 16],
    len: usize,
}

unsafe impl BufMut for RdBuf {
    fn remaining_mut(&self) -> usize {
        16 - self.len
    }
    unsafe fn advance_mut(&mut self, cnt: usize) {
        assert!(self.len + cnt <= 16);
        self.len += cnt;
    }
    fn chunk_mut(&mut self) -> &mut bytes::buf::UninitSlice {
        let l = self.len;
        bytes::buf::UninitSlice::new(&mut self.buf[l..])
    }
    fn put_u8(&mut self, v: u8) {
        assert!(self.len < 16);
        self.buf[self.len] = v;
        self.len += 1;
    }
    fn put_slice(&mut self, src: &[u8]) {
        assert!(self.len + src.len() <= 16);
        let mut i = 0;
        while i < src.len() {
            self.buf[self.len + i] = src[i];
            i += 1;
        }
        self.len += src.len();
    }
}

//@ id=C03 tier=quick cap=600
//@ fn: rd::RouteDistinguisher::decode, rd::RouteDistinguisher::encode
//@ bound: ALL byte strings of length 0..=10 (every value of the 16-bit type field); unwind 12
//@ desc: RD decode is total; accepts exactly the 8-byte strings whose type is 0/1/2; every field is taken from the stated offsets (big endian); encode(decode(b)) == b byte for byte and is 8 bytes long, so decode(encode(x)) == x for every value obtained by decoding
#[kani::proof]
#[kani::unwind(12)]
fn c03_rd_decode_total_roundtrip() {
    let bytes: [u8; 10] = kani::any();
    let len: usize = kani::any();
    kani::assume(len <= 10);
    let r = RouteDistinguisher::decode(&bytes[..len]);
    let ty = u16::from_be_bytes([bytes[0], bytes[1]]);
    match r {
        Ok(rd) => {
            assert!(len == 8 && ty <= 2);
            match rd {
                RouteDistinguisher::TwoOctetAs { admin, assigned } => {
                    assert!(ty == 0);
                    assert!(admin == u16::from_be_bytes([bytes[2], bytes[3]]));
                    assert!(assigned == u32::from_be_bytes([bytes[4], bytes[5], bytes[6], bytes[7]]));
                    kani::cover!(true);
                }
                RouteDistinguisher::Ipv4 { admin, assigned } => {
                    assert!(ty == 1);
                    assert!(admin.octets() == [bytes[2], bytes[3], bytes[4], bytes[5]]);
                    assert!(assigned == u16::from_be_bytes([bytes[6], bytes[7]]));
                    kani::cover!(true);
                }
                RouteDistinguisher::FourOctetAs { admin, assigned } => {
                    assert!(ty == 2);
                    assert!(admin == u32::from_be_bytes([bytes[2], bytes[3], bytes[4], bytes[5]]));
                    assert!(assigned == u16::from_be_bytes([bytes[6], bytes[7]]));
                    kani::cover!(true);
                }
            }
            let mut out = RdBuf { buf: [0u8; 16], len: 0 };
            rd.encode(&mut out);
            assert!(out.len == RouteDistinguisher::LEN);
            let mut i = 0;
            while i < 8 {
                assert!(out.buf[i] == bytes[i]);
                i += 1;
            }
            let again = RouteDistinguisher::decode(&out.buf[..8]);
            assert!(again.is_ok());
            if let Ok(rd2) = again {
                assert!(rd2 == rd);
            }
        }
        Err(_) => {
            assert!(len != 8 || ty > 2);
        }
    }
}

//@ id=C03 tier=thorough cap=600 expect=fail
//@ fn: rd::RouteDistinguisher::decode
//@ bound: 8 bytes
//@ desc: vacuity twin - claims no 8-byte string decodes; must be refuted
#[kani::proof]
#[kani::unwind(12)]
fn c03_rd_twin_must_fail() {
    let bytes: [u8; 8] = kani::any();
    assert!(RouteDistinguisher::decode(&bytes[..]).is_err());
}
