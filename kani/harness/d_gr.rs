// Kani harnesses for daemon/src/gr.rs (C10 helper machine, C11 deferral machine).
#![allow(unused_imports, dead_code, clippy::all)]

use super::*;

const FAM: [Family; 3] = [Family::IPV4, Family::IPV6, Family::IPV4_VPN];
const OTHER: u8 = 0x80;

/// Vec of the selected families, in order, backed by ONE fixed 3-element allocation
/// (no growth path: a `push` under a symbolic length makes CBMC explore reallocation).
fn fams_vec(mask: u8) -> Vec<Family> {
    let mut arr = [FAM[0]; 3];
    let mut n = 0usize;
    if mask & 1 != 0 {
        arr[n] = FAM[0];
        n += 1;
    }
    if mask & 2 != 0 {
        arr[n] = FAM[1];
        n += 1;
    }
    if mask & 4 != 0 {
        arr[n] = FAM[2];
        n += 1;
    }
    let p = Box::into_raw(Box::new(arr)) as *mut Family;
    unsafe { Vec::from_raw_parts(p, n, 3) }
}

fn llgr_vec(mask: u8) -> Vec<(Family, Duration)> {
    let d = Duration::from_secs(10);
    let mut arr = [(FAM[0], d); 3];
    let mut n = 0usize;
    if mask & 1 != 0 {
        arr[n] = (FAM[0], d);
        n += 1;
    }
    if mask & 2 != 0 {
        arr[n] = (FAM[1], d);
        n += 1;
    }
    if mask & 4 != 0 {
        arr[n] = (FAM[2], d);
        n += 1;
    }
    let p = Box::into_raw(Box::new(arr)) as *mut (Family, Duration);
    unsafe { Vec::from_raw_parts(p, n, 3) }
}

fn set_of(mask: u8) -> FnvHashSet<Family> {
    let mut s = FnvHashSet::default();
    if mask & 1 != 0 {
        s.insert(FAM[0]);
    }
    if mask & 2 != 0 {
        s.insert(FAM[1]);
    }
    if mask & 4 != 0 {
        s.insert(FAM[2]);
    }
    s
}

fn bit(f: &Family) -> u8 {
    if *f == FAM[0] {
        1
    } else if *f == FAM[1] {
        2
    } else if *f == FAM[2] {
        4
    } else {
        OTHER
    }
}

fn mask_vec(v: &[Family]) -> u8 {
    let mut m = 0;
    let mut i = 0;
    while i < v.len() {
        m |= bit(&v[i]);
        i += 1;
    }
    m
}

fn mask_llgr(v: &[(Family, Duration)]) -> u8 {
    let mut m = 0;
    let mut i = 0;
    while i < v.len() {
        m |= bit(&v[i].0);
        i += 1;
    }
    m
}

fn mask_set(s: &FnvHashSet<Family>) -> u8 {
    let mut m = 0;
    if s.contains(&FAM[0]) {
        m |= 1;
    }
    if s.contains(&FAM[1]) {
        m |= 2;
    }
    if s.contains(&FAM[2]) {
        m |= 4;
    }
    // entries outside the universe
    let mut n = 0;
    if m & 1 != 0 {
        n += 1;
    }
    if m & 2 != 0 {
        n += 1;
    }
    if m & 4 != 0 {
        n += 1;
    }
    if s.len() != n {
        m |= OTHER;
    }
    m
}

fn any_mask() -> u8 {
    let m: u8 = kani::any();
    kani::assume(m < 8);
    m
}

fn any_nonempty_mask() -> u8 {
    let m = any_mask();
    kani::assume(m != 0);
    m
}

// ---------------------------------------------------------------------------------
// C10: GrState
// ---------------------------------------------------------------------------------

#[derive(Clone, Copy, PartialEq, Eq)]
enum K {
    Idle,
    Restarting,
    Llgr,
    Reconnected,
}

/// arbitrary helper-machine state satisfying the representation invariant:
/// LlgrStaling.remaining and PeerReconnected.pending are non-empty, LLGR parameter lists are
/// non-empty (negotiate_llgr never returns an empty list).
fn any_inner(k: u8) -> (Inner, K) {
    match k {
        0 => (Inner::Idle, K::Idle),
        1 => {
            let s = any_nonempty_mask();
            let llgr = if kani::any() {
                Some(LlgrParams {
                    families: llgr_vec(any_nonempty_mask()),
                })
            } else {
                None
            };
            (
                Inner::PeerRestarting {
                    stale_families: fams_vec(s),
                    llgr,
                },
                K::Restarting,
            )
        }
        2 => (
            Inner::LlgrStaling {
                remaining: set_of(any_nonempty_mask()),
            },
            K::Llgr,
        ),
        _ => (
            Inner::PeerReconnected {
                pending: set_of(any_nonempty_mask()),
                from_llgr: kani::any(),
            },
            K::Reconnected,
        ),
    }
}

/// families for which stale routes may legitimately exist in this state (a restart / LLGR
/// timer is armed for them, or their End-of-RIB is awaited)
fn tracked(st: &Inner) -> u8 {
    match st {
        Inner::Idle => 0,
        Inner::PeerRestarting {
            stale_families,
            llgr,
        } => {
            mask_vec(stale_families)
                | match llgr {
                    Some(lp) => mask_llgr(&lp.families),
                    None => 0,
                }
        }
        Inner::LlgrStaling { remaining } => mask_set(remaining),
        Inner::PeerReconnected { pending, .. } => mask_set(pending),
    }
}

fn kind(st: &Inner) -> K {
    match st {
        Inner::Idle => K::Idle,
        Inner::PeerRestarting { .. } => K::Restarting,
        Inner::LlgrStaling { .. } => K::Llgr,
        Inner::PeerReconnected { .. } => K::Reconnected,
    }
}

#[derive(Default, Clone, Copy)]
struct GrSum {
    n: usize,
    start_timer: bool,
    stop_timer: bool,
    del_gr: u8,
    start_llgr: u8,
    has_start_llgr: bool,
    stop_llgr: bool,
    del_llgr: u8,
}

fn gr_sum(out: &Vec<GrOutput>) -> GrSum {
    let mut s = GrSum::default();
    let mut i = 0;
    while i < out.len() {
        s.n += 1;
        match &out[i] {
            GrOutput::StartTimer(_) => s.start_timer = true,
            GrOutput::StopTimer => s.stop_timer = true,
            GrOutput::DeleteStaleRoutes(f) => s.del_gr |= mask_vec(f),
            GrOutput::StartLlgrTimers(f) => {
                s.has_start_llgr = true;
                s.start_llgr |= mask_llgr(f);
            }
            GrOutput::StopLlgrTimers => s.stop_llgr = true,
            GrOutput::DeleteLlgrStaleRoutes(f) => s.del_llgr |= mask_vec(f),
        }
        i += 1;
    }
    s
}

/// One step of the helper machine from an arbitrary state, against the ledger
/// "stale routes exist only for families that a timer or an awaited EOR still covers".
///
/// Ghost state: `stale` = families that may hold stale routes of the peer (subset of the
/// families the pre-state covers), `restart_armed` / `llgr_armed` = timers armed in the driver.
/// Driver facts used (daemon/src/event/mod.rs, quoted in DESIGN.md C10): on a GR-eligible
/// disconnect every session family outside gr+llgr is dropped at once and the restart timer
/// handle is cancelled before the machine is fed; Delete*(F) removes the stale routes of F;
/// a timer input can only arrive for an armed timer.
fn gr_step(pre: u8, kin: u8) -> (K, K) {
    let (st, k0) = any_inner(pre);
    let pre_t = tracked(&st);
    let (pre_stale_fams, pre_llgr) = match &st {
        Inner::PeerRestarting {
            stale_families,
            llgr,
        } => (
            mask_vec(stale_families),
            match llgr {
                Some(lp) => mask_llgr(&lp.families),
                None => 0,
            },
        ),
        _ => (0, 0),
    };
    let pre_from_llgr = matches!(&st, Inner::PeerReconnected { from_llgr: true, .. });
    let stale = any_mask();
    kani::assume(stale & !pre_t == 0);
    let mut restart_armed: bool = kani::any();
    let mut llgr_armed = any_mask();
    // timer invariant of the pre-state
    kani::assume(k0 != K::Restarting || restart_armed);
    kani::assume(k0 != K::Llgr || (pre_t & !llgr_armed) == 0);

    let mut gs = GrState { state: st };
    assert!(gs.is_peer_restarting() == (k0 != K::Idle));

    let g = any_mask();
    let l = any_mask();
    let fi: u8 = kani::any();
    kani::assume(fi < 3);
    let f = FAM[fi as usize];
    let fbit = 1u8 << fi;
    let mut stale_after = stale;
    let input = match kin {
        0 => {
            // GR/LLGR-eligible session drop. At least one of gr / llgr is negotiated (else the
            // driver does not feed the machine); an established session cannot drop while the
            // machine is in LlgrStaling (Established would have moved it on).
            kani::assume(g != 0 || l != 0);
            kani::assume(k0 != K::Llgr);
            restart_armed = false; // apply_disconnect: ctx.cancel_gr_timer() first
            stale_after = g | l; // everything else was dropped by the driver at disconnect
            GrInput::SessionDropped {
                gr: if g != 0 {
                    Some(GrParams {
                        families: fams_vec(g),
                        restart_time: Duration::from_secs(120),
                    })
                } else {
                    None
                },
                llgr: if l != 0 {
                    Some(LlgrParams {
                        families: llgr_vec(l),
                    })
                } else {
                    None
                },
            }
        }
        1 => {
            restart_armed = false; // process_effects: ctx.cancel_gr_timer() first
            GrInput::SessionEstablished {
                gr_families: fams_vec(g),
            }
        }
        2 => GrInput::EorReceived(f),
        3 => {
            kani::assume(restart_armed);
            restart_armed = false;
            GrInput::TimerExpired
        }
        _ => {
            kani::assume(llgr_armed & fbit != 0);
            llgr_armed &= !fbit;
            GrInput::LlgrTimerExpired(f)
        }
    };
    let out = gs.process(input);
    let s = gr_sum(&out);
    let post_t = tracked(&gs.state);
    let k1 = kind(&gs.state);

    // ledger update from the outputs
    if s.stop_timer {
        restart_armed = false;
    }
    if s.start_timer {
        restart_armed = true;
    }
    if s.stop_llgr {
        llgr_armed = 0;
    }
    if s.has_start_llgr {
        llgr_armed |= s.start_llgr;
    }
    // DeleteStaleRoutes purges GR-stale routes, DeleteLlgrStaleRoutes purges LLGR-stale ones (the
    // driver maps them to drop_stale / drop_llgr_stale, which test different source flags): in
    // the LLGR phases (LlgrStaling, PeerReconnected{from_llgr}) only the LLGR purge removes them.
    let llgr_phase = k0 == K::Llgr || (k0 == K::Reconnected && pre_from_llgr);
    if kin != 0 {
        if llgr_phase {
            stale_after &= !s.del_llgr;
        } else {
            stale_after &= !s.del_gr;
        }
    }

    // (O1) no stale family without a covering timer / awaited EOR
    let leak = stale_after & !post_t;
    if kin == 3 && k0 == K::Restarting && pre_llgr != 0 {
        // role of known finding C10-KF1 (known_findings.json): families that negotiated GR but
        // not LLGR, at restart-timer expiry with LLGR taking over
        let gr_only = pre_stale_fams & !pre_llgr;
        assert!(
            leak & gr_only == 0,
            "C10-KF1: GR-only families keep stale routes after restart-timer expiry when LLGR takes over"
        );
        assert!(leak & !gr_only == 0);
    } else if kin == 1 && k0 == K::Restarting && pre_llgr != 0 {
        // role of known finding C10-KF2: families that negotiated LLGR but not GR are retained
        // at disconnect (families_to_drop_on_disconnect) yet are not re-negotiated at a
        // reconnect during the restart period
        let llgr_only = pre_llgr & !pre_stale_fams;
        assert!(
            leak & llgr_only == 0,
            "C10-KF2: LLGR-only families retained at disconnect are left uncovered by a reconnect during the restart period"
        );
        assert!(leak & !llgr_only == 0);
    } else {
        assert!(leak == 0);
    }
    // (O2) timer invariant is re-established
    assert!(k1 != K::Restarting || restart_armed);
    assert!(k1 != K::Llgr || (post_t & !llgr_armed) == 0);
    // (O3) representation invariant is inductive
    assert!(post_t & OTHER == 0);
    assert!(k1 == K::Idle || post_t != 0);
    // (O4) is_peer_restarting <=> not idle
    assert!(gs.is_peer_restarting() == (k1 != K::Idle));
    // (O5) End-of-RIB / timer expiry for a covered family removes it from coverage
    if kin == 2 && k0 == K::Reconnected {
        assert!(post_t & fbit == 0);
        // the phase (GR vs LLGR stale routes) does not change while End-of-RIBs are still awaited
        if let Inner::PeerReconnected { from_llgr, .. } = &gs.state {
            assert!(*from_llgr == pre_from_llgr);
        }
    }
    if kin == 4 && k0 == K::Llgr {
        assert!(post_t & fbit == 0 && s.del_llgr & fbit != 0);
    }
    if kin == 3 && k0 == K::Restarting {
        assert!(k1 != K::Restarting);
    }
    core::mem::forget(out);
    core::mem::forget(gs);
    (k0, k1)
}

//@ id=C10 tier=quick cap=600
//@ fn: gr::GrState::process, gr::GrState::is_peer_restarting
//@ bound: one step from ANY idle helper state (family sets: any non-empty subset of {v4,v6,vpn4}; llgr parameters present/absent) x SessionDropped{gr any subset, llgr any subset of {v4,v6,vpn4}, not both empty}; unwind 6
//@ desc: ledger oracle: afterwards every family that may still hold stale routes is covered by an armed restart/LLGR timer or an awaited End-of-RIB; timer invariant re-established; is_peer_restarting <=> not idle
#[kani::proof]
#[kani::unwind(6)]
fn c10_gr_idle_dropped() {
    let (_k0, k1) = gr_step(0, 0);
    kani::cover!(k1 == K::Llgr);
    kani::cover!(k1 == K::Restarting);
    let _ = k1;
}

//@ id=C10 tier=thorough cap=600
//@ fn: gr::GrState::process, gr::GrState::is_peer_restarting
//@ bound: one step from ANY idle helper state (family sets: any non-empty subset of {v4,v6,vpn4}; llgr parameters present/absent) x SessionEstablished{gr_families any subset of {v4,v6,vpn4}}; unwind 6
//@ desc: ledger oracle: afterwards every family that may still hold stale routes is covered by an armed restart/LLGR timer or an awaited End-of-RIB; timer invariant re-established; is_peer_restarting <=> not idle
#[kani::proof]
#[kani::unwind(6)]
fn c10_gr_idle_established() {
    let (_k0, k1) = gr_step(0, 1);
    let _ = k1;
}

//@ id=C10 tier=thorough cap=600
//@ fn: gr::GrState::process, gr::GrState::is_peer_restarting
//@ bound: one step from ANY idle helper state (family sets: any non-empty subset of {v4,v6,vpn4}; llgr parameters present/absent) x EorReceived(f), f in {v4,v6,vpn4}; unwind 6
//@ desc: ledger oracle: afterwards every family that may still hold stale routes is covered by an armed restart/LLGR timer or an awaited End-of-RIB; timer invariant re-established; is_peer_restarting <=> not idle
#[kani::proof]
#[kani::unwind(6)]
fn c10_gr_idle_eor() {
    let (_k0, k1) = gr_step(0, 2);
    let _ = k1;
}

//@ id=C10 tier=thorough cap=600
//@ fn: gr::GrState::process, gr::GrState::is_peer_restarting
//@ bound: one step from ANY idle helper state (family sets: any non-empty subset of {v4,v6,vpn4}; llgr parameters present/absent) x TimerExpired (restart timer armed); unwind 6
//@ desc: ledger oracle: afterwards every family that may still hold stale routes is covered by an armed restart/LLGR timer or an awaited End-of-RIB; timer invariant re-established; is_peer_restarting <=> not idle
#[kani::proof]
#[kani::unwind(6)]
fn c10_gr_idle_timer() {
    let (_k0, k1) = gr_step(0, 3);
    let _ = k1;
}

//@ id=C10 tier=thorough cap=600
//@ fn: gr::GrState::process, gr::GrState::is_peer_restarting
//@ bound: one step from ANY idle helper state (family sets: any non-empty subset of {v4,v6,vpn4}; llgr parameters present/absent) x LlgrTimerExpired(f) for an armed family timer; unwind 6
//@ desc: ledger oracle: afterwards every family that may still hold stale routes is covered by an armed restart/LLGR timer or an awaited End-of-RIB; timer invariant re-established; is_peer_restarting <=> not idle
#[kani::proof]
#[kani::unwind(6)]
fn c10_gr_idle_llgr_timer() {
    let (_k0, k1) = gr_step(0, 4);
    let _ = k1;
}

//@ id=C10 tier=quick cap=600
//@ fn: gr::GrState::process, gr::GrState::is_peer_restarting
//@ bound: one step from ANY restarting helper state (family sets: any non-empty subset of {v4,v6,vpn4}; llgr parameters present/absent) x SessionDropped{gr any subset, llgr any subset of {v4,v6,vpn4}, not both empty}; unwind 6
//@ desc: ledger oracle: afterwards every family that may still hold stale routes is covered by an armed restart/LLGR timer or an awaited End-of-RIB; timer invariant re-established; is_peer_restarting <=> not idle
#[kani::proof]
#[kani::unwind(6)]
fn c10_gr_restarting_dropped() {
    let (_k0, k1) = gr_step(1, 0);
    kani::cover!(k1 == K::Restarting);
    let _ = k1;
}

//@ id=C10 tier=quick cap=600
//@ fn: gr::GrState::process, gr::GrState::is_peer_restarting
//@ bound: one step from ANY restarting helper state (family sets: any non-empty subset of {v4,v6,vpn4}; llgr parameters present/absent) x SessionEstablished{gr_families any subset of {v4,v6,vpn4}}; unwind 6
//@ desc: ledger oracle: afterwards every family that may still hold stale routes is covered by an armed restart/LLGR timer or an awaited End-of-RIB; timer invariant re-established; is_peer_restarting <=> not idle
#[kani::proof]
#[kani::unwind(6)]
fn c10_gr_restarting_established() {
    let (_k0, k1) = gr_step(1, 1);
    kani::cover!(k1 == K::Reconnected);
    kani::cover!(k1 == K::Idle);
    let _ = k1;
}

//@ id=C10 tier=thorough cap=600
//@ fn: gr::GrState::process, gr::GrState::is_peer_restarting
//@ bound: one step from ANY restarting helper state (family sets: any non-empty subset of {v4,v6,vpn4}; llgr parameters present/absent) x EorReceived(f), f in {v4,v6,vpn4}; unwind 6
//@ desc: ledger oracle: afterwards every family that may still hold stale routes is covered by an armed restart/LLGR timer or an awaited End-of-RIB; timer invariant re-established; is_peer_restarting <=> not idle
#[kani::proof]
#[kani::unwind(6)]
fn c10_gr_restarting_eor() {
    let (_k0, k1) = gr_step(1, 2);
    let _ = k1;
}

//@ id=C10 tier=quick cap=600
//@ fn: gr::GrState::process, gr::GrState::is_peer_restarting
//@ bound: one step from ANY restarting helper state (family sets: any non-empty subset of {v4,v6,vpn4}; llgr parameters present/absent) x TimerExpired (restart timer armed); unwind 6
//@ desc: ledger oracle: afterwards every family that may still hold stale routes is covered by an armed restart/LLGR timer or an awaited End-of-RIB; timer invariant re-established; is_peer_restarting <=> not idle
#[kani::proof]
#[kani::unwind(6)]
fn c10_gr_restarting_timer() {
    let (_k0, k1) = gr_step(1, 3);
    kani::cover!(k1 == K::Llgr);
    kani::cover!(k1 == K::Idle);
    let _ = k1;
}

//@ id=C10 tier=thorough cap=600
//@ fn: gr::GrState::process, gr::GrState::is_peer_restarting
//@ bound: one step from ANY restarting helper state (family sets: any non-empty subset of {v4,v6,vpn4}; llgr parameters present/absent) x LlgrTimerExpired(f) for an armed family timer; unwind 6
//@ desc: ledger oracle: afterwards every family that may still hold stale routes is covered by an armed restart/LLGR timer or an awaited End-of-RIB; timer invariant re-established; is_peer_restarting <=> not idle
#[kani::proof]
#[kani::unwind(6)]
fn c10_gr_restarting_llgr_timer() {
    let (_k0, k1) = gr_step(1, 4);
    let _ = k1;
}

//@ id=C10 tier=quick cap=600
//@ fn: gr::GrState::process, gr::GrState::is_peer_restarting
//@ bound: one step from ANY llgr helper state (family sets: any non-empty subset of {v4,v6,vpn4}; llgr parameters present/absent) x SessionEstablished{gr_families any subset of {v4,v6,vpn4}}; unwind 6
//@ desc: ledger oracle: afterwards every family that may still hold stale routes is covered by an armed restart/LLGR timer or an awaited End-of-RIB; timer invariant re-established; is_peer_restarting <=> not idle
#[kani::proof]
#[kani::unwind(6)]
fn c10_gr_llgr_established() {
    let (_k0, k1) = gr_step(2, 1);
    kani::cover!(k1 == K::Reconnected);
    kani::cover!(k1 == K::Idle);
    let _ = k1;
}

//@ id=C10 tier=thorough cap=600
//@ fn: gr::GrState::process, gr::GrState::is_peer_restarting
//@ bound: one step from ANY llgr helper state (family sets: any non-empty subset of {v4,v6,vpn4}; llgr parameters present/absent) x EorReceived(f), f in {v4,v6,vpn4}; unwind 6
//@ desc: ledger oracle: afterwards every family that may still hold stale routes is covered by an armed restart/LLGR timer or an awaited End-of-RIB; timer invariant re-established; is_peer_restarting <=> not idle
#[kani::proof]
#[kani::unwind(6)]
fn c10_gr_llgr_eor() {
    let (_k0, k1) = gr_step(2, 2);
    let _ = k1;
}

//@ id=C10 tier=thorough cap=600
//@ fn: gr::GrState::process, gr::GrState::is_peer_restarting
//@ bound: one step from ANY llgr helper state (family sets: any non-empty subset of {v4,v6,vpn4}; llgr parameters present/absent) x TimerExpired (restart timer armed); unwind 6
//@ desc: ledger oracle: afterwards every family that may still hold stale routes is covered by an armed restart/LLGR timer or an awaited End-of-RIB; timer invariant re-established; is_peer_restarting <=> not idle
#[kani::proof]
#[kani::unwind(6)]
fn c10_gr_llgr_timer() {
    let (_k0, k1) = gr_step(2, 3);
    let _ = k1;
}

//@ id=C10 tier=quick cap=600
//@ fn: gr::GrState::process, gr::GrState::is_peer_restarting
//@ bound: one step from ANY llgr helper state (family sets: any non-empty subset of {v4,v6,vpn4}; llgr parameters present/absent) x LlgrTimerExpired(f) for an armed family timer; unwind 6
//@ desc: ledger oracle: afterwards every family that may still hold stale routes is covered by an armed restart/LLGR timer or an awaited End-of-RIB; timer invariant re-established; is_peer_restarting <=> not idle
#[kani::proof]
#[kani::unwind(6)]
fn c10_gr_llgr_llgr_timer() {
    let (_k0, k1) = gr_step(2, 4);
    kani::cover!(k1 == K::Idle);
    kani::cover!(k1 == K::Llgr);
    let _ = k1;
}

//@ id=C10 tier=quick cap=600
//@ fn: gr::GrState::process, gr::GrState::is_peer_restarting
//@ bound: one step from ANY reconnected helper state (family sets: any non-empty subset of {v4,v6,vpn4}; llgr parameters present/absent) x SessionDropped{gr any subset, llgr any subset of {v4,v6,vpn4}, not both empty}; unwind 6
//@ desc: ledger oracle: afterwards every family that may still hold stale routes is covered by an armed restart/LLGR timer or an awaited End-of-RIB; timer invariant re-established; is_peer_restarting <=> not idle
#[kani::proof]
#[kani::unwind(6)]
fn c10_gr_reconnected_dropped() {
    let (_k0, k1) = gr_step(3, 0);
    kani::cover!(k1 == K::Restarting);
    kani::cover!(k1 == K::Llgr);
    let _ = k1;
}

//@ id=C10 tier=thorough cap=600
//@ fn: gr::GrState::process, gr::GrState::is_peer_restarting
//@ bound: one step from ANY reconnected helper state (family sets: any non-empty subset of {v4,v6,vpn4}; llgr parameters present/absent) x SessionEstablished{gr_families any subset of {v4,v6,vpn4}}; unwind 6
//@ desc: ledger oracle: afterwards every family that may still hold stale routes is covered by an armed restart/LLGR timer or an awaited End-of-RIB; timer invariant re-established; is_peer_restarting <=> not idle
#[kani::proof]
#[kani::unwind(6)]
fn c10_gr_reconnected_established() {
    let (_k0, k1) = gr_step(3, 1);
    let _ = k1;
}

//@ id=C10 tier=quick cap=600
//@ fn: gr::GrState::process, gr::GrState::is_peer_restarting
//@ bound: one step from ANY reconnected helper state (family sets: any non-empty subset of {v4,v6,vpn4}; llgr parameters present/absent) x EorReceived(f), f in {v4,v6,vpn4}; unwind 6
//@ desc: ledger oracle: afterwards every family that may still hold stale routes is covered by an armed restart/LLGR timer or an awaited End-of-RIB; timer invariant re-established; is_peer_restarting <=> not idle
#[kani::proof]
#[kani::unwind(6)]
fn c10_gr_reconnected_eor() {
    let (_k0, k1) = gr_step(3, 2);
    kani::cover!(k1 == K::Idle);
    kani::cover!(k1 == K::Reconnected);
    let _ = k1;
}

//@ id=C10 tier=thorough cap=600
//@ fn: gr::GrState::process, gr::GrState::is_peer_restarting
//@ bound: one step from ANY reconnected helper state (family sets: any non-empty subset of {v4,v6,vpn4}; llgr parameters present/absent) x TimerExpired (restart timer armed); unwind 6
//@ desc: ledger oracle: afterwards every family that may still hold stale routes is covered by an armed restart/LLGR timer or an awaited End-of-RIB; timer invariant re-established; is_peer_restarting <=> not idle
#[kani::proof]
#[kani::unwind(6)]
fn c10_gr_reconnected_timer() {
    let (_k0, k1) = gr_step(3, 3);
    let _ = k1;
}

//@ id=C10 tier=thorough cap=600
//@ fn: gr::GrState::process, gr::GrState::is_peer_restarting
//@ bound: one step from ANY reconnected helper state (family sets: any non-empty subset of {v4,v6,vpn4}; llgr parameters present/absent) x LlgrTimerExpired(f) for an armed family timer; unwind 6
//@ desc: ledger oracle: afterwards every family that may still hold stale routes is covered by an armed restart/LLGR timer or an awaited End-of-RIB; timer invariant re-established; is_peer_restarting <=> not idle
#[kani::proof]
#[kani::unwind(6)]
fn c10_gr_reconnected_llgr_timer() {
    let (_k0, k1) = gr_step(3, 4);
    let _ = k1;
}

//@ id=C10 tier=thorough cap=600 expect=fail
//@ fn: gr::GrState::process
//@ bound: as c10_gr_restarting_timer
//@ desc: vacuity twin - claims the restart-timer expiry never leaves the Restarting state; must be refuted
#[kani::proof]
#[kani::unwind(6)]
fn c10_gr_twin_must_fail() {
    let (st, k0) = any_inner(1);
    let mut gs = GrState { state: st };
    let out = gs.process(GrInput::TimerExpired);
    assert!(kind(&gs.state) == k0);
    core::mem::forget(out);
    core::mem::forget(gs);
}

// ---------------------------------------------------------------------------------
// C11: RestartingDeferral
// ---------------------------------------------------------------------------------

/// semantically identical replacement of `<Ipv4Addr as PartialEq>::eq` (std compares the octet
/// arrays with memcmp, which CBMC handles byte-wise through pointers; this compares the u32s)
fn ipv4_eq(a: &std::net::Ipv4Addr, b: &std::net::Ipv4Addr) -> bool {
    u32::from(*a) == u32::from(*b)
}

fn peer(i: usize) -> IpAddr {
    IpAddr::V4(std::net::Ipv4Addr::new(10, 0, 0, (i + 1) as u8))
}

#[derive(Clone, Copy, PartialEq, Eq)]
enum RK {
    Awaiting,
    Deferring,
    Completed,
}

fn rkind(st: &RestartingInner) -> RK {
    match st {
        RestartingInner::AwaitingStart { .. } => RK::Awaiting,
        RestartingInner::Deferring { .. } => RK::Deferring,
        RestartingInner::Completed => RK::Completed,
    }
}

fn pending_of(st: &RestartingInner) -> Option<&FnvHashMap<IpAddr, FnvHashSet<Family>>> {
    match st {
        RestartingInner::AwaitingStart { pending, .. } => Some(pending),
        RestartingInner::Deferring { pending } => Some(pending),
        RestartingInner::Completed => None,
    }
}

/// per-peer family masks of the pending map; `extra` is set if the map holds anything outside
/// the 3-peer universe or an empty set
fn pending_masks(st: &RestartingInner) -> ([u8; 3], bool) {
    let mut m = [0u8; 3];
    let mut bad = false;
    if let Some(p) = pending_of(st) {
        let mut n = 0;
        let mut i = 0;
        while i < 3 {
            if let Some(s) = p.get(&peer(i)) {
                m[i] = mask_set(s);
                if m[i] == 0 {
                    bad = true;
                }
                n += 1;
            }
            i += 1;
        }
        if p.len() != n {
            bad = true;
        }
    }
    (m, bad)
}

fn build_pending(m: [u8; 3]) -> FnvHashMap<IpAddr, FnvHashSet<Family>> {
    let mut p = FnvHashMap::default();
    if m[0] != 0 {
        p.insert(peer(0), set_of(m[0]));
    }
    if m[1] != 0 {
        p.insert(peer(1), set_of(m[1]));
    }
    if m[2] != 0 {
        p.insert(peer(2), set_of(m[2]));
    }
    p
}

#[derive(Default, Clone, Copy)]
struct RdSum {
    n: usize,
    complete: u8,
    dup_complete: bool,
    end: usize,
    end_fams: u8,
    start_timer: usize,
    defer: u8,
    n_defer: usize,
    end_nonempty: bool,
}

fn rd_sum(out: &Vec<RestartingOutput>, deref_lists: bool) -> RdSum {
    let mut s = RdSum::default();
    let mut i = 0;
    while i < out.len() {
        s.n += 1;
        match &out[i] {
            RestartingOutput::DeferFamilies(f) => {
                if deref_lists {
                    s.defer |= mask_vec(f);
                }
                s.n_defer += 1;
            }
            RestartingOutput::StartDeferralTimer(_) => s.start_timer += 1,
            RestartingOutput::FamilyDeferralComplete(f) => {
                let b = bit(f);
                if s.complete & b != 0 {
                    s.dup_complete = true;
                }
                s.complete |= b;
            }
            RestartingOutput::EndDeferral(f) => {
                s.end += 1;
                // the list is dereferenced only where the oracle needs its contents (timer
                // expiry / construction): following a pointer that was read back from a vector
                // grown under a symbolic length is what makes CBMC's formula explode
                if deref_lists {
                    s.end_fams |= mask_vec(f);
                } else if f.len() != 0 {
                    s.end_nonempty = true;
                }
            }
        }
        i += 1;
    }
    s
}

/// One step of the deferral machine from an arbitrary state over peers {a,b,c} and families
/// {v4,v6,vpn4}, against the reference set-machine of the statement:
/// a family is released (FamilyDeferralComplete or listed in EndDeferral) in exactly the step
/// after which no pending peer lists it; EndDeferral is emitted exactly when the machine
/// completes; the machine is completed iff no peer is pending (or the timer fired); a peer
/// without GR (or an unknown peer) never blocks.
fn rd_step(rk: u8, kin: u8) -> (RK, RK, RdSum) {
    let m0 = [any_mask(), any_mask(), any_mask()];
    // representation invariant: a non-completed machine has at least one pending peer
    kani::assume(rk == 2 || (m0[0] | m0[1] | m0[2]) != 0);
    let st = match rk {
        0 => RestartingInner::AwaitingStart {
            pending: build_pending(m0),
            duration: if kani::any() {
                Some(Duration::from_secs(60))
            } else {
                None
            },
        },
        1 => RestartingInner::Deferring {
            pending: build_pending(m0),
        },
        _ => RestartingInner::Completed,
    };
    let k0 = rkind(&st);
    let pre = if k0 == RK::Completed { [0u8; 3] } else { m0 };
    let mut rd = RestartingDeferral { state: st };
    assert!(rd.is_completed() == (k0 == RK::Completed));

    let pi: u8 = kani::any();
    kani::assume(pi < 4); // 3 = a peer that was never configured for GR
    let addr = if pi < 3 {
        peer(pi as usize)
    } else {
        IpAddr::V4(std::net::Ipv4Addr::new(192, 0, 2, 9))
    };
    let g = any_mask();
    let fi: u8 = kani::any();
    kani::assume(fi < 3);
    let fbit = 1u8 << fi;
    let input = match kin {
        0 => RestartingInput::PeerEstablished(addr, fams_vec(g)),
        1 => RestartingInput::EorReceived(addr, FAM[fi as usize]),
        2 => RestartingInput::PeerWithdrawn(addr),
        _ => RestartingInput::TimerExpired,
    };
    let out = rd.process(input);
    let s = rd_sum(&out, kin == 3);
    // outside timer expiry EndDeferral carries no families (everything was released one by one)
    assert!(kin == 3 || !s.end_nonempty);
    let k1 = rkind(&rd.state);
    let (post, bad) = pending_masks(&rd.state);

    let listed_pre = pre[0] | pre[1] | pre[2];
    let listed_post = post[0] | post[1] | post[2];
    let released = s.complete | s.end_fams;

    // representation invariant is inductive
    assert!(!bad);
    assert!((k1 == RK::Completed) == (listed_post == 0));
    assert!(rd.is_completed() == (k1 == RK::Completed));
    // (R1) nothing is released while a pending peer still lists it
    assert!(released & listed_post == 0);
    // (R2) a family that stops being listed is released in this very step
    assert!((listed_pre & !listed_post) & !released == 0);
    // (R3) EndDeferral exactly once, exactly when the machine completes in this step
    assert!(s.end == if k0 != RK::Completed && k1 == RK::Completed { 1 } else { 0 });
    // (R4) a completed machine is inert
    if k0 == RK::Completed {
        assert!(s.n == 0 && k1 == RK::Completed);
    }
    // (R5) no family outside the universe is invented, no DeferFamilies after construction
    assert!(released & OTHER == 0 && s.n_defer == 0);
    // (R6) pending sets only shrink, except that a re-establishing known peer replaces its own set
    let mut i = 0;
    while i < 3 {
        let replaced = kin == 0 && pi as usize == i && pre[i] != 0 && g != 0;
        if replaced {
            assert!(post[i] == g);
        } else {
            assert!(post[i] & !pre[i] == 0);
        }
        i += 1;
    }
    // (R7) per-input effect on the addressed peer
    if k0 != RK::Completed && pi < 3 {
        let p = pi as usize;
        match kin {
            0 if g == 0 => assert!(post[p] == 0),
            2 => assert!(post[p] == 0),
            1 if k0 == RK::Deferring => assert!(post[p] == pre[p] & !fbit),
            _ => {}
        }
    }
    // (R8) an unknown / never-pending peer changes nothing
    if k0 != RK::Completed && kin < 3 && (pi == 3 || pre[pi as usize] == 0) {
        assert!(post[0] == pre[0] && post[1] == pre[1] && post[2] == pre[2]);
        assert!(s.end == 0);
    }
    // (R9) the timer ends all deferral while Deferring and is ignored before the first establish
    if kin == 3 {
        match k0 {
            RK::Deferring => assert!(k1 == RK::Completed && s.end_fams == listed_pre),
            RK::Awaiting => assert!(k1 == RK::Awaiting && s.n == 0),
            RK::Completed => {}
        }
    }
    // (R10) the deferral timer is started by the first known peer that establishes with GR
    if kin == 0 && k0 == RK::Awaiting && pi < 3 && pre[pi as usize] != 0 && g != 0 {
        assert!(s.start_timer == 1 && k1 == RK::Deferring);
    }
    core::mem::forget(out);
    core::mem::forget(rd);
    (k0, k1, s)
}

//@ id=C11 tier=off cap=3000 mem=40
//@ fn: gr::RestartingDeferral::process, remove_peer, complete_for, finish_awaiting, finish_deferring, is_completed
//@ bound: one step from ANY awaiting deferral state (pending = any map over peers {a,b,c} -> non-empty subset of {v4,v6,vpn4}, at least one peer) x PeerEstablished(peer in {a,b,c,unknown}, any family subset incl. empty); unwind 6
//@ desc: reference set-machine: a family is released exactly in the step after which no pending peer lists it; EndDeferral exactly when the machine completes; unknown / non-GR peers never block
#[kani::proof]
#[kani::unwind(6)]
fn c11_rd_awaiting_established() {
    let (_k0, k1, s) = rd_step(0, 0);
    kani::cover!(k1 == RK::Deferring);
    kani::cover!(k1 == RK::Completed);
    kani::cover!(s.complete != 0);
    let _ = (k1, s);
}

//@ id=C11 tier=quick cap=900
//@ fn: gr::RestartingDeferral::process, remove_peer, complete_for, finish_awaiting, finish_deferring, is_completed
//@ bound: one step from ANY awaiting deferral state (pending = any map over peers {a,b,c} -> non-empty subset of {v4,v6,vpn4}, at least one peer) x EorReceived(peer in {a,b,c,unknown}, f in {v4,v6,vpn4}); unwind 6
//@ desc: reference set-machine: a family is released exactly in the step after which no pending peer lists it; EndDeferral exactly when the machine completes; unknown / non-GR peers never block
#[kani::proof]
#[kani::unwind(6)]
fn c11_rd_awaiting_eor() {
    let (_k0, k1, s) = rd_step(0, 1);
    let _ = (k1, s);
}

//@ id=C11 tier=off cap=3000 mem=40
//@ fn: gr::RestartingDeferral::process, remove_peer, complete_for, finish_awaiting, finish_deferring, is_completed
//@ bound: one step from ANY awaiting deferral state (pending = any map over peers {a,b,c} -> non-empty subset of {v4,v6,vpn4}, at least one peer) x PeerWithdrawn(peer in {a,b,c,unknown}); unwind 6
//@ desc: reference set-machine: a family is released exactly in the step after which no pending peer lists it; EndDeferral exactly when the machine completes; unknown / non-GR peers never block
#[kani::proof]
#[kani::unwind(6)]
fn c11_rd_awaiting_withdrawn() {
    let (_k0, k1, s) = rd_step(0, 2);
    kani::cover!(k1 == RK::Completed);
    kani::cover!(k1 == RK::Awaiting && s.complete != 0);
    let _ = (k1, s);
}

//@ id=C11 tier=thorough cap=900
//@ fn: gr::RestartingDeferral::process, remove_peer, complete_for, finish_awaiting, finish_deferring, is_completed
//@ bound: one step from ANY awaiting deferral state (pending = any map over peers {a,b,c} -> non-empty subset of {v4,v6,vpn4}, at least one peer) x TimerExpired; unwind 6
//@ desc: reference set-machine: a family is released exactly in the step after which no pending peer lists it; EndDeferral exactly when the machine completes; unknown / non-GR peers never block
#[kani::proof]
#[kani::unwind(6)]
fn c11_rd_awaiting_timer() {
    let (_k0, k1, s) = rd_step(0, 3);
    let _ = (k1, s);
}

//@ id=C11 tier=off cap=3000 mem=40
//@ fn: gr::RestartingDeferral::process, remove_peer, complete_for, finish_awaiting, finish_deferring, is_completed
//@ bound: one step from ANY deferring deferral state (pending = any map over peers {a,b,c} -> non-empty subset of {v4,v6,vpn4}, at least one peer) x PeerEstablished(peer in {a,b,c,unknown}, any family subset incl. empty); unwind 6
//@ desc: reference set-machine: a family is released exactly in the step after which no pending peer lists it; EndDeferral exactly when the machine completes; unknown / non-GR peers never block
#[kani::proof]
#[kani::unwind(6)]
fn c11_rd_deferring_established() {
    let (_k0, k1, s) = rd_step(1, 0);
    kani::cover!(s.complete != 0 && k1 == RK::Deferring);
    kani::cover!(k1 == RK::Completed);
    let _ = (k1, s);
}

//@ id=C11 tier=quick cap=1500 mem=24
//@ fn: gr::RestartingDeferral::process, remove_peer, complete_for, finish_awaiting, finish_deferring, is_completed
//@ bound: one step from ANY deferring deferral state (pending = any map over peers {a,b,c} -> non-empty subset of {v4,v6,vpn4}, at least one peer) x EorReceived(peer in {a,b,c,unknown}, f in {v4,v6,vpn4}); unwind 6
//@ desc: reference set-machine: a family is released exactly in the step after which no pending peer lists it; EndDeferral exactly when the machine completes; unknown / non-GR peers never block
#[kani::proof]
#[kani::unwind(6)]
fn c11_rd_deferring_eor() {
    let (_k0, k1, s) = rd_step(1, 1);
    kani::cover!(k1 == RK::Completed);
    kani::cover!(s.complete != 0 && k1 == RK::Deferring);
    let _ = (k1, s);
}

//@ id=C11 tier=off cap=3000 mem=40
//@ fn: gr::RestartingDeferral::process, remove_peer, complete_for, finish_awaiting, finish_deferring, is_completed
//@ bound: one step from ANY deferring deferral state (pending = any map over peers {a,b,c} -> non-empty subset of {v4,v6,vpn4}, at least one peer) x PeerWithdrawn(peer in {a,b,c,unknown}); unwind 6
//@ desc: reference set-machine: a family is released exactly in the step after which no pending peer lists it; EndDeferral exactly when the machine completes; unknown / non-GR peers never block
#[kani::proof]
#[kani::unwind(6)]
fn c11_rd_deferring_withdrawn() {
    let (_k0, k1, s) = rd_step(1, 2);
    kani::cover!(k1 == RK::Completed);
    kani::cover!(s.complete != 0 && k1 == RK::Deferring);
    let _ = (k1, s);
}

//@ id=C11 tier=off cap=3000 mem=40
//@ fn: gr::RestartingDeferral::process, remove_peer, complete_for, finish_awaiting, finish_deferring, is_completed
//@ bound: one step from ANY deferring deferral state (pending = any map over peers {a,b,c} -> non-empty subset of {v4,v6,vpn4}, at least one peer) x TimerExpired; unwind 6
//@ desc: reference set-machine: a family is released exactly in the step after which no pending peer lists it; EndDeferral exactly when the machine completes; unknown / non-GR peers never block
#[kani::proof]
#[kani::unwind(6)]
fn c11_rd_deferring_timer() {
    let (_k0, k1, s) = rd_step(1, 3);
    kani::cover!(k1 == RK::Completed && s.end_fams == 7);
    let _ = (k1, s);
}

//@ id=C11 tier=quick cap=900
//@ fn: gr::RestartingDeferral::process, remove_peer, complete_for, finish_awaiting, finish_deferring, is_completed
//@ bound: one step from ANY completed deferral state (pending = any map over peers {a,b,c} -> non-empty subset of {v4,v6,vpn4}, at least one peer) x PeerEstablished(peer in {a,b,c,unknown}, any family subset incl. empty); unwind 6
//@ desc: reference set-machine: a family is released exactly in the step after which no pending peer lists it; EndDeferral exactly when the machine completes; unknown / non-GR peers never block
#[kani::proof]
#[kani::unwind(6)]
fn c11_rd_completed_established() {
    let (_k0, k1, s) = rd_step(2, 0);
    let _ = (k1, s);
}

//@ id=C11 tier=quick cap=900
//@ fn: gr::RestartingDeferral::process, remove_peer, complete_for, finish_awaiting, finish_deferring, is_completed
//@ bound: one step from ANY completed deferral state (pending = any map over peers {a,b,c} -> non-empty subset of {v4,v6,vpn4}, at least one peer) x EorReceived(peer in {a,b,c,unknown}, f in {v4,v6,vpn4}); unwind 6
//@ desc: reference set-machine: a family is released exactly in the step after which no pending peer lists it; EndDeferral exactly when the machine completes; unknown / non-GR peers never block
#[kani::proof]
#[kani::unwind(6)]
fn c11_rd_completed_eor() {
    let (_k0, k1, s) = rd_step(2, 1);
    let _ = (k1, s);
}

//@ id=C11 tier=thorough cap=900
//@ fn: gr::RestartingDeferral::process, remove_peer, complete_for, finish_awaiting, finish_deferring, is_completed
//@ bound: one step from ANY completed deferral state (pending = any map over peers {a,b,c} -> non-empty subset of {v4,v6,vpn4}, at least one peer) x PeerWithdrawn(peer in {a,b,c,unknown}); unwind 6
//@ desc: reference set-machine: a family is released exactly in the step after which no pending peer lists it; EndDeferral exactly when the machine completes; unknown / non-GR peers never block
#[kani::proof]
#[kani::unwind(6)]
fn c11_rd_completed_withdrawn() {
    let (_k0, k1, s) = rd_step(2, 2);
    let _ = (k1, s);
}

//@ id=C11 tier=thorough cap=900
//@ fn: gr::RestartingDeferral::process, remove_peer, complete_for, finish_awaiting, finish_deferring, is_completed
//@ bound: one step from ANY completed deferral state (pending = any map over peers {a,b,c} -> non-empty subset of {v4,v6,vpn4}, at least one peer) x TimerExpired; unwind 6
//@ desc: reference set-machine: a family is released exactly in the step after which no pending peer lists it; EndDeferral exactly when the machine completes; unknown / non-GR peers never block
#[kani::proof]
#[kani::unwind(6)]
fn c11_rd_completed_timer() {
    let (_k0, k1, s) = rd_step(2, 3);
    let _ = (k1, s);
}

//@ id=C11 tier=off cap=3000 mem=40
//@ fn: gr::RestartingDeferral::new
//@ bound: gr_peers = any map {a,b,c} -> subset of {v4,v6,vpn4} (empty lists allowed); unwind 6
//@ desc: construction: deferred families = union of the configured lists; peers without GR families are not pending; completed iff nobody is pending
#[kani::proof]
#[kani::unwind(6)]
fn c11_rd_new() {
    let m = [any_mask(), any_mask(), any_mask()];
    let present = [kani::any::<bool>(), kani::any::<bool>(), kani::any::<bool>()];
    let mut gp: FnvHashMap<IpAddr, Vec<Family>> = FnvHashMap::default();
    let mut want = [0u8; 3];
    let mut i = 0;
    while i < 3 {
        if present[i] {
            gp.insert(peer(i), fams_vec(m[i]));
            want[i] = m[i];
        }
        i += 1;
    }
    let (rd, out) = RestartingDeferral::new(gp, Some(Duration::from_secs(5)));
    let s = rd_sum(&out, true);
    let (post, bad) = pending_masks(&rd.state);
    assert!(!bad);
    assert!(post[0] == want[0] && post[1] == want[1] && post[2] == want[2]);
    let all = want[0] | want[1] | want[2];
    assert!(rd.is_completed() == (all == 0));
    assert!(s.defer == all);
    assert!(s.n == if all == 0 { 0 } else { 1 });
    assert!(rkind(&rd.state) != RK::Deferring);
    kani::cover!(all == 7);
    kani::cover!(all == 0 && present[0]);
    core::mem::forget(out);
    core::mem::forget(rd);
}

//@ id=C11 tier=thorough cap=900 expect=fail
//@ fn: gr::RestartingDeferral::process
//@ bound: as c11_rd_step_eor
//@ desc: vacuity twin - claims an EOR never completes the machine; must be refuted
#[kani::proof]
#[kani::unwind(6)]
fn c11_rd_twin_must_fail() {
    let m0 = [any_nonempty_mask(), 0, 0];
    let mut rd = RestartingDeferral {
        state: RestartingInner::Deferring {
            pending: build_pending(m0),
        },
    };
    let fi: u8 = kani::any();
    kani::assume(fi < 3);
    let out = rd.process(RestartingInput::EorReceived(peer(0), FAM[fi as usize]));
    assert!(!rd.is_completed());
    core::mem::forget(out);
    core::mem::forget(rd);
}


//@ id=C11 tier=off cap=3600 mem=40
//@ fn: gr::RestartingDeferral::process (Deferring + PeerEstablished with GR), complete_for
//@ bound: REDUCED universe: peers {a,b}, families {v4,v6}; pending = any map a,b -> non-empty subset; peer a re-establishes with ANY non-empty family subset; unwind 5
//@ desc: a family dropped by the re-establishing peer is released only if no other pending peer still lists it (same reference set-machine as the full-universe steps, which do not finish)
#[kani::proof]
#[kani::unwind(5)]
fn c11_rd_small_deferring_established() {
    let ma: u8 = kani::any();
    let mb: u8 = kani::any();
    let g: u8 = kani::any();
    kani::assume(ma >= 1 && ma < 4 && mb < 4 && g >= 1 && g < 4);
    let mut rd = RestartingDeferral {
        state: RestartingInner::Deferring {
            pending: build_pending([ma, mb, 0]),
        },
    };
    let out = rd.process(RestartingInput::PeerEstablished(peer(0), fams_vec(g)));
    let s = rd_sum(&out, false);
    let (post, bad) = pending_masks(&rd.state);
    assert!(!bad);
    assert!(post[0] == g && post[1] == mb);
    let listed_pre = ma | mb;
    let listed_post = g | mb;
    let released = s.complete;
    assert!(released & listed_post == 0);
    assert!((listed_pre & !listed_post) & !released == 0);
    assert!(s.end == 0 && !rd.is_completed());
    kani::cover!(released != 0);
    kani::cover!(ma & !g & mb != 0);
    core::mem::forget(out);
    core::mem::forget(rd);
}

fn popcount3(m: u8) -> usize {
    (m & 1) as usize + ((m >> 1) & 1) as usize + ((m >> 2) & 1) as usize
}

/// Output-count oracle: the output vector is never dereferenced (reading elements that were
/// pushed under a symbolic length is what makes the full oracle run out of memory); only its
/// LENGTH is compared with the reference machine: one FamilyDeferralComplete per family that
/// stops being listed, plus StartDeferralTimer / EndDeferral where the reference emits them.
fn rd_count_step(rk: u8, kin: u8, peers: usize, fam_limit: u8) -> (RK, RK) {
    let m0 = [
        { let m = any_mask(); kani::assume(m < fam_limit); m },
        { let m = any_mask(); kani::assume(m < fam_limit); m },
        if peers > 2 { let m = any_mask(); kani::assume(m < fam_limit); m } else { 0 },
    ];
    kani::assume(rk == 2 || (m0[0] | m0[1] | m0[2]) != 0);
    let st = match rk {
        0 => RestartingInner::AwaitingStart {
            pending: build_pending(m0),
            duration: None,
        },
        1 => RestartingInner::Deferring {
            pending: build_pending(m0),
        },
        _ => RestartingInner::Completed,
    };
    let k0 = rkind(&st);
    let pre = if k0 == RK::Completed { [0u8; 3] } else { m0 };
    let mut rd = RestartingDeferral { state: st };
    let pi: u8 = kani::any();
    kani::assume((pi as usize) < peers || pi == 3);
    let addr = if pi < 3 {
        peer(pi as usize)
    } else {
        IpAddr::V4(std::net::Ipv4Addr::new(192, 0, 2, 9))
    };
    let g = any_mask();
    kani::assume(g < fam_limit);
    let input = match kin {
        0 => RestartingInput::PeerEstablished(addr, fams_vec(g)),
        _ => RestartingInput::PeerWithdrawn(addr),
    };
    let out = rd.process(input);
    let n_out = out.len();
    let k1 = rkind(&rd.state);
    let (post, bad) = pending_masks(&rd.state);
    assert!(!bad);
    // reference machine
    let mut want = pre;
    let mut timer = 0usize;
    let known = pi < 3 && pre[pi as usize] != 0;
    if k0 != RK::Completed && known {
        let p = pi as usize;
        if kin == 0 && g != 0 {
            want[p] = g;
            if k0 == RK::Awaiting {
                timer = 1;
            }
        } else {
            want[p] = 0;
        }
    }
    assert!(post[0] == want[0] && post[1] == want[1] && post[2] == want[2]);
    let listed_pre = pre[0] | pre[1] | pre[2];
    let listed_post = want[0] | want[1] | want[2];
    let released = popcount3(listed_pre & !listed_post);
    let end = if k0 != RK::Completed && listed_post == 0 { 1 } else { 0 };
    assert!((k1 == RK::Completed) == (listed_post == 0));
    assert!(n_out == released + timer + end);
    core::mem::forget(out);
    core::mem::forget(rd);
    (k0, k1)
}

//@ id=C11 tier=off cap=3600 mem=40
//@ fn: gr::RestartingDeferral::process (Deferring + PeerEstablished), complete_for, remove_peer, finish_deferring
//@ bound: REDUCED universe: peers {a,b} (+ unknown), families {v4,v6}; pending = any map; PeerEstablished(any of them, any family subset incl. empty); unwind 5
//@ desc: post-state equals the reference set-machine and the NUMBER of outputs equals (families that stop being listed) + (timer start) + (EndDeferral) - the output list itself is not dereferenced (see rd_count_step)
#[kani::proof]
#[kani::unwind(5)]
fn c11_rd_count_deferring_established() {
    let (_k0, k1) = rd_count_step(1, 0, 2, 4);
    kani::cover!(k1 == RK::Deferring);
    kani::cover!(k1 == RK::Completed);
}

//@ id=C11 tier=off cap=3600 mem=40
//@ fn: gr::RestartingDeferral::process (Deferring / AwaitingStart + PeerWithdrawn, AwaitingStart + PeerEstablished)
//@ bound: REDUCED universe as above; unwind 5
//@ desc: as c11_rd_count_deferring_established for the other peer-level transitions
#[kani::proof]
#[kani::unwind(5)]
fn c11_rd_count_other() {
    let k: u8 = kani::any();
    kani::assume(k < 3);
    let (_k0, k1) = match k {
        0 => rd_count_step(1, 1, 2, 4),
        1 => rd_count_step(0, 0, 2, 4),
        _ => rd_count_step(0, 1, 2, 4),
    };
    kani::cover!(k1 == RK::Completed);
}
