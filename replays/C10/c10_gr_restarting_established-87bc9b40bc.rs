// replay for property C10, harness c10_gr_restarting_established (module d_gr)
// run: ./vcheck C10 --replay /verif/replays/C10/c10_gr_restarting_established-87bc9b40bc.rs
/// Test generated for harness `gr::verif_d_gr::c10_gr_restarting_established` 
///
/// Check for `assertion`: "assertion failed: leak == 0"

#[test]
fn kani_concrete_playback_c10_gr_restarting_established_7033112190095416479() {
    let concrete_vals: Vec<Vec<u8>> = vec![
        // 4
        vec![4],
        // 1
        vec![1],
        // 7
        vec![7],
        // 6
        vec![6],
        // 1
        vec![1],
        // 7
        vec![7],
        // 5
        vec![5],
        // 7
        vec![7],
        // 2
        vec![2],
    ];
    kani::concrete_playback_run(concrete_vals, c10_gr_restarting_established);
}

/// Test generated for harness `gr::verif_d_gr::c10_gr_restarting_established` 
///
/// Check for `cover`: "cover condition: k1 == K::Reconnected"

#[test]
fn kani_concrete_playback_c10_gr_restarting_established_16985326614411965175() {
    let concrete_vals: Vec<Vec<u8>> = vec![
        // 7
        vec![7],
        // 1
        vec![1],
        // 7
        vec![7],
        // 7
        vec![7],
        // 1
        vec![1],
        // 7
        vec![7],
        // 7
        vec![7],
        // 7
        vec![7],
        // 2
        vec![2],
    ];
    kani::concrete_playback_run(concrete_vals, c10_gr_restarting_established);
}

/// Test generated for harness `gr::verif_d_gr::c10_gr_restarting_established` 
///
/// Check for `cover`: "cover condition: k1 == K::Idle"

#[test]
fn kani_concrete_playback_c10_gr_restarting_established_7372775927181943844() {
    let concrete_vals: Vec<Vec<u8>> = vec![
        // 3
        vec![3],
        // 0
        vec![0],
        // 3
        vec![3],
        // 1
        vec![1],
        // 7
        vec![7],
        // 0
        vec![0],
        // 7
        vec![7],
        // 2
        vec![2],
    ];
    kani::concrete_playback_run(concrete_vals, c10_gr_restarting_established);
}
