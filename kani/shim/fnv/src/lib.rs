//! Stub S1 (see /verif/DESIGN.md §2.2): a drop-in replacement of the `fnv` crate for
//! symbolic execution.  `FnvHashMap` / `FnvHashSet` are fixed-capacity inline slot
//! arrays; every operation is a scan over constant indices.  Contents and lookup
//! results are those of `std::collections::HashMap`; iteration order is slot order
//! (unspecified in std); more than `CAP` live entries panics (a stated bound).
//! `FnvHasher` itself is the real FNV-1a so third-party users (h2) and
//! `table_manager::shard_of` keep their behaviour.
#![allow(clippy::all)]

use core::borrow::Borrow;
use core::fmt;
use core::hash::{BuildHasherDefault, Hasher};
use core::ops::Index;

pub const CAP: usize = 4;

pub struct FnvHasher(u64);

impl Default for FnvHasher {
    #[inline]
    fn default() -> FnvHasher {
        FnvHasher(0xcbf29ce484222325)
    }
}

impl FnvHasher {
    #[inline]
    pub fn with_key(key: u64) -> FnvHasher {
        FnvHasher(key)
    }
}

impl Hasher for FnvHasher {
    #[inline]
    fn finish(&self) -> u64 {
        self.0
    }
    #[inline]
    fn write(&mut self, bytes: &[u8]) {
        let FnvHasher(mut hash) = *self;
        for byte in bytes.iter() {
            hash = hash ^ (*byte as u64);
            hash = hash.wrapping_mul(0x100000001b3);
        }
        *self = FnvHasher(hash);
    }
}

pub type FnvBuildHasher = BuildHasherDefault<FnvHasher>;

// ------------------------------------------------------------------------------------
// Map
// ------------------------------------------------------------------------------------

pub struct FnvHashMap<K, V> {
    slots: [Option<(K, V)>; CAP],
}

impl<K, V> Default for FnvHashMap<K, V> {
    #[inline]
    fn default() -> Self {
        FnvHashMap {
            slots: [None, None, None, None],
        }
    }
}

impl<K, V> FnvHashMap<K, V> {
    #[inline]
    pub fn with_capacity_and_hasher<S>(_n: usize, _s: S) -> Self {
        Self::default()
    }
    #[inline]
    pub fn with_hasher<S>(_s: S) -> Self {
        Self::default()
    }
    #[inline]
    pub fn len(&self) -> usize {
        let mut n = 0;
        if self.slots[0].is_some() {
            n += 1;
        }
        if self.slots[1].is_some() {
            n += 1;
        }
        if self.slots[2].is_some() {
            n += 1;
        }
        if self.slots[3].is_some() {
            n += 1;
        }
        n
    }
    #[inline]
    pub fn is_empty(&self) -> bool {
        self.slots[0].is_none()
            && self.slots[1].is_none()
            && self.slots[2].is_none()
            && self.slots[3].is_none()
    }
    #[inline]
    pub fn capacity(&self) -> usize {
        CAP
    }
    #[inline]
    pub fn reserve(&mut self, _n: usize) {}
    #[inline]
    pub fn shrink_to_fit(&mut self) {}
    pub fn clear(&mut self) {
        self.slots[0] = None;
        self.slots[1] = None;
        self.slots[2] = None;
        self.slots[3] = None;
    }
    #[inline]
    pub fn iter(&self) -> Iter<'_, K, V> {
        Iter {
            slots: &self.slots,
            i: 0,
        }
    }
    #[inline]
    pub fn iter_mut(&mut self) -> IterMut<'_, K, V> {
        IterMut {
            inner: self.slots.iter_mut(),
        }
    }
    #[inline]
    pub fn keys(&self) -> Keys<'_, K, V> {
        Keys { inner: self.iter() }
    }
    #[inline]
    pub fn values(&self) -> Values<'_, K, V> {
        Values { inner: self.iter() }
    }
    #[inline]
    pub fn values_mut(&mut self) -> ValuesMut<'_, K, V> {
        ValuesMut {
            inner: self.iter_mut(),
        }
    }
    #[inline]
    pub fn into_values(self) -> IntoValues<K, V> {
        IntoValues {
            inner: self.into_iter(),
        }
    }
    #[inline]
    pub fn into_keys(self) -> IntoKeys<K, V> {
        IntoKeys {
            inner: self.into_iter(),
        }
    }
    #[inline]
    pub fn drain(&mut self) -> Drain<'_, K, V> {
        Drain {
            inner: self.slots.iter_mut(),
        }
    }
    pub fn retain<F: FnMut(&K, &mut V) -> bool>(&mut self, mut f: F) {
        macro_rules! one {
            ($i:expr) => {
                let keep = match &mut self.slots[$i] {
                    Some((k, v)) => f(k, v),
                    None => true,
                };
                if !keep {
                    self.slots[$i] = None;
                }
            };
        }
        one!(0);
        one!(1);
        one!(2);
        one!(3);
    }
}

impl<K, V> FnvHashMap<K, V> {
    /// index of the first empty slot (constant-index scan)
    #[inline]
    fn first_free(&self) -> Option<usize> {
        if self.slots[0].is_none() {
            Some(0)
        } else if self.slots[1].is_none() {
            Some(1)
        } else if self.slots[2].is_none() {
            Some(2)
        } else if self.slots[3].is_none() {
            Some(3)
        } else {
            None
        }
    }
}

impl<K: Eq, V> FnvHashMap<K, V> {
    /// index of the slot holding `k` (constant-index scan)
    #[inline]
    fn find<Q: ?Sized + Eq>(&self, k: &Q) -> Option<usize>
    where
        K: Borrow<Q>,
    {
        macro_rules! one {
            ($i:expr) => {
                if let Some((sk, _)) = &self.slots[$i] {
                    if sk.borrow() == k {
                        return Some($i);
                    }
                }
            };
        }
        one!(0);
        one!(1);
        one!(2);
        one!(3);
        None
    }
    pub fn get<Q: ?Sized + Eq>(&self, k: &Q) -> Option<&V>
    where
        K: Borrow<Q>,
    {
        macro_rules! one {
            ($i:expr) => {
                if let Some((sk, sv)) = &self.slots[$i] {
                    if sk.borrow() == k {
                        return Some(sv);
                    }
                }
            };
        }
        one!(0);
        one!(1);
        one!(2);
        one!(3);
        None
    }
    pub fn get_key_value<Q: ?Sized + Eq>(&self, k: &Q) -> Option<(&K, &V)>
    where
        K: Borrow<Q>,
    {
        macro_rules! one {
            ($i:expr) => {
                if let Some((sk, sv)) = &self.slots[$i] {
                    if sk.borrow() == k {
                        return Some((sk, sv));
                    }
                }
            };
        }
        one!(0);
        one!(1);
        one!(2);
        one!(3);
        None
    }
    pub fn get_mut<Q: ?Sized + Eq>(&mut self, k: &Q) -> Option<&mut V>
    where
        K: Borrow<Q>,
    {
        // constant-index accesses only: a reference formed with a symbolic index costs CBMC a
        // symbolic-offset byte extract over the whole slot array
        match self.find(k) {
            Some(0) => self.slots[0].as_mut().map(|kv| &mut kv.1),
            Some(1) => self.slots[1].as_mut().map(|kv| &mut kv.1),
            Some(2) => self.slots[2].as_mut().map(|kv| &mut kv.1),
            Some(3) => self.slots[3].as_mut().map(|kv| &mut kv.1),
            _ => None,
        }
    }
    #[inline]
    pub fn contains_key<Q: ?Sized + Eq>(&self, k: &Q) -> bool
    where
        K: Borrow<Q>,
    {
        self.get(k).is_some()
    }
    pub fn insert(&mut self, key: K, value: V) -> Option<V> {
        macro_rules! hit {
            ($i:expr) => {
                if let Some((sk, sv)) = &mut self.slots[$i] {
                    if *sk == key {
                        return Some(core::mem::replace(sv, value));
                    }
                }
            };
        }
        hit!(0);
        hit!(1);
        hit!(2);
        hit!(3);
        if self.slots[0].is_none() {
            self.slots[0] = Some((key, value));
        } else if self.slots[1].is_none() {
            self.slots[1] = Some((key, value));
        } else if self.slots[2].is_none() {
            self.slots[2] = Some((key, value));
        } else if self.slots[3].is_none() {
            self.slots[3] = Some((key, value));
        } else {
            panic!("fnv shim: capacity exceeded");
        }
        None
    }
    pub fn remove<Q: ?Sized + Eq>(&mut self, k: &Q) -> Option<V>
    where
        K: Borrow<Q>,
    {
        self.remove_entry(k).map(|(_, v)| v)
    }
    pub fn remove_entry<Q: ?Sized + Eq>(&mut self, k: &Q) -> Option<(K, V)>
    where
        K: Borrow<Q>,
    {
        match self.find(k) {
            Some(0) => self.slots[0].take(),
            Some(1) => self.slots[1].take(),
            Some(2) => self.slots[2].take(),
            Some(3) => self.slots[3].take(),
            _ => None,
        }
    }
    pub fn entry(&mut self, key: K) -> Entry<'_, K, V> {
        match self.find(&key) {
            Some(0) => {
                return Entry::Occupied(OccupiedEntry {
                    slot: &mut self.slots[0],
                })
            }
            Some(1) => {
                return Entry::Occupied(OccupiedEntry {
                    slot: &mut self.slots[1],
                })
            }
            Some(2) => {
                return Entry::Occupied(OccupiedEntry {
                    slot: &mut self.slots[2],
                })
            }
            Some(3) => {
                return Entry::Occupied(OccupiedEntry {
                    slot: &mut self.slots[3],
                })
            }
            _ => {}
        }
        match self.first_free() {
            Some(0) => Entry::Vacant(VacantEntry {
                key,
                slot: &mut self.slots[0],
            }),
            Some(1) => Entry::Vacant(VacantEntry {
                key,
                slot: &mut self.slots[1],
            }),
            Some(2) => Entry::Vacant(VacantEntry {
                key,
                slot: &mut self.slots[2],
            }),
            Some(3) => Entry::Vacant(VacantEntry {
                key,
                slot: &mut self.slots[3],
            }),
            _ => panic!("fnv shim: capacity exceeded"),
        }
    }
}

pub enum Entry<'a, K, V> {
    Occupied(OccupiedEntry<'a, K, V>),
    Vacant(VacantEntry<'a, K, V>),
}

pub struct OccupiedEntry<'a, K, V> {
    slot: &'a mut Option<(K, V)>,
}

pub struct VacantEntry<'a, K, V> {
    key: K,
    slot: &'a mut Option<(K, V)>,
}

impl<'a, K, V> Entry<'a, K, V> {
    pub fn or_insert(self, default: V) -> &'a mut V {
        match self {
            Entry::Occupied(e) => e.into_mut(),
            Entry::Vacant(e) => e.insert(default),
        }
    }
    pub fn or_insert_with<F: FnOnce() -> V>(self, f: F) -> &'a mut V {
        match self {
            Entry::Occupied(e) => e.into_mut(),
            Entry::Vacant(e) => e.insert(f()),
        }
    }
    pub fn or_insert_with_key<F: FnOnce(&K) -> V>(self, f: F) -> &'a mut V {
        match self {
            Entry::Occupied(e) => e.into_mut(),
            Entry::Vacant(e) => {
                let v = f(&e.key);
                e.insert(v)
            }
        }
    }
    pub fn or_default(self) -> &'a mut V
    where
        V: Default,
    {
        match self {
            Entry::Occupied(e) => e.into_mut(),
            Entry::Vacant(e) => e.insert(V::default()),
        }
    }
    pub fn and_modify<F: FnOnce(&mut V)>(mut self, f: F) -> Self {
        if let Entry::Occupied(e) = &mut self {
            f(e.get_mut());
        }
        self
    }
    pub fn key(&self) -> &K {
        match self {
            Entry::Occupied(e) => e.key(),
            Entry::Vacant(e) => e.key(),
        }
    }
}

impl<'a, K, V> OccupiedEntry<'a, K, V> {
    #[inline]
    pub fn key(&self) -> &K {
        match &*self.slot {
            Some((k, _)) => k,
            None => unreachable!(),
        }
    }
    #[inline]
    pub fn get(&self) -> &V {
        match &*self.slot {
            Some((_, v)) => v,
            None => unreachable!(),
        }
    }
    #[inline]
    pub fn get_mut(&mut self) -> &mut V {
        match &mut *self.slot {
            Some((_, v)) => v,
            None => unreachable!(),
        }
    }
    #[inline]
    pub fn into_mut(self) -> &'a mut V {
        match self.slot {
            Some((_, v)) => v,
            None => unreachable!(),
        }
    }
    #[inline]
    pub fn insert(&mut self, value: V) -> V {
        core::mem::replace(self.get_mut(), value)
    }
    #[inline]
    pub fn remove(self) -> V {
        match self.slot.take() {
            Some((_, v)) => v,
            None => unreachable!(),
        }
    }
    #[inline]
    pub fn remove_entry(self) -> (K, V) {
        match self.slot.take() {
            Some(kv) => kv,
            None => unreachable!(),
        }
    }
}

impl<'a, K, V> VacantEntry<'a, K, V> {
    #[inline]
    pub fn key(&self) -> &K {
        &self.key
    }
    #[inline]
    pub fn into_key(self) -> K {
        self.key
    }
    #[inline]
    pub fn insert(self, value: V) -> &'a mut V {
        *self.slot = Some((self.key, value));
        match self.slot {
            Some((_, v)) => v,
            None => unreachable!(),
        }
    }
}

// ---- iterators --------------------------------------------------------------------

pub struct Iter<'a, K, V> {
    slots: &'a [Option<(K, V)>; CAP],
    i: usize,
}
impl<'a, K, V> Clone for Iter<'a, K, V> {
    fn clone(&self) -> Self {
        Iter {
            slots: self.slots,
            i: self.i,
        }
    }
}
impl<'a, K, V> Iterator for Iter<'a, K, V> {
    type Item = (&'a K, &'a V);
    fn next(&mut self) -> Option<Self::Item> {
        macro_rules! step {
            ($i:expr) => {
                if self.i == $i {
                    self.i = $i + 1;
                    if let Some((k, v)) = &self.slots[$i] {
                        return Some((k, v));
                    }
                }
            };
        }
        step!(0);
        step!(1);
        step!(2);
        step!(3);
        None
    }
}

pub struct IterMut<'a, K, V> {
    inner: core::slice::IterMut<'a, Option<(K, V)>>,
}
impl<'a, K, V> Iterator for IterMut<'a, K, V> {
    type Item = (&'a K, &'a mut V);
    fn next(&mut self) -> Option<Self::Item> {
        loop {
            match self.inner.next() {
                None => return None,
                Some(Some((k, v))) => return Some((&*k, v)),
                Some(None) => {}
            }
        }
    }
}

pub struct Keys<'a, K, V> {
    inner: Iter<'a, K, V>,
}
impl<'a, K, V> Clone for Keys<'a, K, V> {
    fn clone(&self) -> Self {
        Keys {
            inner: self.inner.clone(),
        }
    }
}
impl<'a, K, V> Iterator for Keys<'a, K, V> {
    type Item = &'a K;
    #[inline]
    fn next(&mut self) -> Option<&'a K> {
        self.inner.next().map(|(k, _)| k)
    }
}

pub struct Values<'a, K, V> {
    inner: Iter<'a, K, V>,
}
impl<'a, K, V> Clone for Values<'a, K, V> {
    fn clone(&self) -> Self {
        Values {
            inner: self.inner.clone(),
        }
    }
}
impl<'a, K, V> Iterator for Values<'a, K, V> {
    type Item = &'a V;
    #[inline]
    fn next(&mut self) -> Option<&'a V> {
        self.inner.next().map(|(_, v)| v)
    }
}

pub struct ValuesMut<'a, K, V> {
    inner: IterMut<'a, K, V>,
}
impl<'a, K, V> Iterator for ValuesMut<'a, K, V> {
    type Item = &'a mut V;
    #[inline]
    fn next(&mut self) -> Option<&'a mut V> {
        self.inner.next().map(|(_, v)| v)
    }
}

pub struct IntoIter<K, V> {
    inner: core::array::IntoIter<Option<(K, V)>, CAP>,
}
impl<K, V> Iterator for IntoIter<K, V> {
    type Item = (K, V);
    fn next(&mut self) -> Option<(K, V)> {
        loop {
            match self.inner.next() {
                None => return None,
                Some(Some(kv)) => return Some(kv),
                Some(None) => {}
            }
        }
    }
}

pub struct IntoValues<K, V> {
    inner: IntoIter<K, V>,
}
impl<K, V> Iterator for IntoValues<K, V> {
    type Item = V;
    #[inline]
    fn next(&mut self) -> Option<V> {
        self.inner.next().map(|(_, v)| v)
    }
}

pub struct IntoKeys<K, V> {
    inner: IntoIter<K, V>,
}
impl<K, V> Iterator for IntoKeys<K, V> {
    type Item = K;
    #[inline]
    fn next(&mut self) -> Option<K> {
        self.inner.next().map(|(k, _)| k)
    }
}

pub struct Drain<'a, K, V> {
    inner: core::slice::IterMut<'a, Option<(K, V)>>,
}
impl<'a, K, V> Iterator for Drain<'a, K, V> {
    type Item = (K, V);
    fn next(&mut self) -> Option<(K, V)> {
        loop {
            match self.inner.next() {
                None => return None,
                Some(s) => {
                    if let Some(kv) = s.take() {
                        return Some(kv);
                    }
                }
            }
        }
    }
}
impl<'a, K, V> Drop for Drain<'a, K, V> {
    fn drop(&mut self) {
        for s in &mut self.inner {
            *s = None;
        }
    }
}

impl<K, V> IntoIterator for FnvHashMap<K, V> {
    type Item = (K, V);
    type IntoIter = IntoIter<K, V>;
    #[inline]
    fn into_iter(self) -> IntoIter<K, V> {
        IntoIter {
            inner: self.slots.into_iter(),
        }
    }
}
impl<'a, K, V> IntoIterator for &'a FnvHashMap<K, V> {
    type Item = (&'a K, &'a V);
    type IntoIter = Iter<'a, K, V>;
    #[inline]
    fn into_iter(self) -> Iter<'a, K, V> {
        self.iter()
    }
}
impl<'a, K, V> IntoIterator for &'a mut FnvHashMap<K, V> {
    type Item = (&'a K, &'a mut V);
    type IntoIter = IterMut<'a, K, V>;
    #[inline]
    fn into_iter(self) -> IterMut<'a, K, V> {
        self.iter_mut()
    }
}

impl<K: Eq, V> FromIterator<(K, V)> for FnvHashMap<K, V> {
    fn from_iter<I: IntoIterator<Item = (K, V)>>(iter: I) -> Self {
        let mut m = Self::default();
        for (k, v) in iter {
            m.insert(k, v);
        }
        m
    }
}
impl<K: Eq, V> Extend<(K, V)> for FnvHashMap<K, V> {
    fn extend<I: IntoIterator<Item = (K, V)>>(&mut self, iter: I) {
        for (k, v) in iter {
            self.insert(k, v);
        }
    }
}
impl<'a, K: Eq + Copy, V: Copy> Extend<(&'a K, &'a V)> for FnvHashMap<K, V> {
    fn extend<I: IntoIterator<Item = (&'a K, &'a V)>>(&mut self, iter: I) {
        for (k, v) in iter {
            self.insert(*k, *v);
        }
    }
}
impl<K: Eq, V, const N: usize> From<[(K, V); N]> for FnvHashMap<K, V> {
    fn from(a: [(K, V); N]) -> Self {
        a.into_iter().collect()
    }
}

impl<K: Clone, V: Clone> Clone for FnvHashMap<K, V> {
    fn clone(&self) -> Self {
        FnvHashMap {
            slots: [
                self.slots[0].clone(),
                self.slots[1].clone(),
                self.slots[2].clone(),
                self.slots[3].clone(),
            ],
        }
    }
}

impl<K: Eq, V: PartialEq> PartialEq for FnvHashMap<K, V> {
    fn eq(&self, other: &Self) -> bool {
        if self.len() != other.len() {
            return false;
        }
        for (k, v) in self.iter() {
            match other.get(k) {
                Some(ov) => {
                    if *v != *ov {
                        return false;
                    }
                }
                None => return false,
            }
        }
        true
    }
}
impl<K: Eq, V: Eq> Eq for FnvHashMap<K, V> {}

impl<K: fmt::Debug, V: fmt::Debug> fmt::Debug for FnvHashMap<K, V> {
    fn fmt(&self, f: &mut fmt::Formatter<'_>) -> fmt::Result {
        f.debug_map().entries(self.iter()).finish()
    }
}

impl<K: Eq + Borrow<Q>, Q: ?Sized + Eq, V> Index<&Q> for FnvHashMap<K, V> {
    type Output = V;
    #[inline]
    fn index(&self, key: &Q) -> &V {
        self.get(key).expect("no entry found for key")
    }
}

// ------------------------------------------------------------------------------------
// Set
// ------------------------------------------------------------------------------------

pub struct FnvHashSet<T> {
    map: FnvHashMap<T, ()>,
}

impl<T> Default for FnvHashSet<T> {
    #[inline]
    fn default() -> Self {
        FnvHashSet {
            map: FnvHashMap::default(),
        }
    }
}

impl<T> FnvHashSet<T> {
    #[inline]
    pub fn with_capacity_and_hasher<S>(_n: usize, _s: S) -> Self {
        Self::default()
    }
    #[inline]
    pub fn with_hasher<S>(_s: S) -> Self {
        Self::default()
    }
    #[inline]
    pub fn len(&self) -> usize {
        self.map.len()
    }
    #[inline]
    pub fn is_empty(&self) -> bool {
        self.map.is_empty()
    }
    #[inline]
    pub fn capacity(&self) -> usize {
        CAP
    }
    #[inline]
    pub fn reserve(&mut self, _n: usize) {}
    #[inline]
    pub fn shrink_to_fit(&mut self) {}
    #[inline]
    pub fn clear(&mut self) {
        self.map.clear()
    }
    #[inline]
    pub fn iter(&self) -> SetIter<'_, T> {
        SetIter {
            inner: self.map.iter(),
        }
    }
    #[inline]
    pub fn drain(&mut self) -> SetDrain<'_, T> {
        SetDrain {
            inner: self.map.drain(),
        }
    }
    #[inline]
    pub fn retain<F: FnMut(&T) -> bool>(&mut self, mut f: F) {
        self.map.retain(|k, _| f(k))
    }
}

impl<T: Eq> FnvHashSet<T> {
    #[inline]
    pub fn contains<Q: ?Sized + Eq>(&self, v: &Q) -> bool
    where
        T: Borrow<Q>,
    {
        self.map.contains_key(v)
    }
    #[inline]
    pub fn get<Q: ?Sized + Eq>(&self, v: &Q) -> Option<&T>
    where
        T: Borrow<Q>,
    {
        self.map.get_key_value(v).map(|(k, _)| k)
    }
    /// true when the value was newly inserted (std semantics: an equal present value is
    /// kept, the new one dropped)
    pub fn insert(&mut self, v: T) -> bool {
        if self.map.contains_key(&v) {
            return false;
        }
        self.map.insert(v, ());
        true
    }
    pub fn replace(&mut self, v: T) -> Option<T> {
        let old = self.map.remove_entry(&v).map(|(k, _)| k);
        self.map.insert(v, ());
        old
    }
    #[inline]
    pub fn remove<Q: ?Sized + Eq>(&mut self, v: &Q) -> bool
    where
        T: Borrow<Q>,
    {
        self.map.remove_entry(v).is_some()
    }
    #[inline]
    pub fn take<Q: ?Sized + Eq>(&mut self, v: &Q) -> Option<T>
    where
        T: Borrow<Q>,
    {
        self.map.remove_entry(v).map(|(k, _)| k)
    }
    #[inline]
    pub fn difference<'a>(&'a self, other: &'a FnvHashSet<T>) -> Difference<'a, T> {
        Difference {
            inner: self.iter(),
            other,
        }
    }
    #[inline]
    pub fn intersection<'a>(&'a self, other: &'a FnvHashSet<T>) -> Intersection<'a, T> {
        Intersection {
            inner: self.iter(),
            other,
        }
    }
    #[inline]
    pub fn union<'a>(&'a self, other: &'a FnvHashSet<T>) -> Union<'a, T> {
        Union {
            a: self.iter(),
            b: other.difference(self),
        }
    }
    pub fn is_subset(&self, other: &FnvHashSet<T>) -> bool {
        for v in self.iter() {
            if !other.contains(v) {
                return false;
            }
        }
        true
    }
    #[inline]
    pub fn is_superset(&self, other: &FnvHashSet<T>) -> bool {
        other.is_subset(self)
    }
    pub fn is_disjoint(&self, other: &FnvHashSet<T>) -> bool {
        for v in self.iter() {
            if other.contains(v) {
                return false;
            }
        }
        true
    }
}

pub struct SetIter<'a, T> {
    inner: Iter<'a, T, ()>,
}
impl<'a, T> Clone for SetIter<'a, T> {
    fn clone(&self) -> Self {
        SetIter {
            inner: self.inner.clone(),
        }
    }
}
impl<'a, T> Iterator for SetIter<'a, T> {
    type Item = &'a T;
    #[inline]
    fn next(&mut self) -> Option<&'a T> {
        self.inner.next().map(|(k, _)| k)
    }
}

pub struct SetIntoIter<T> {
    inner: IntoIter<T, ()>,
}
impl<T> Iterator for SetIntoIter<T> {
    type Item = T;
    #[inline]
    fn next(&mut self) -> Option<T> {
        self.inner.next().map(|(k, _)| k)
    }
}

pub struct SetDrain<'a, T> {
    inner: Drain<'a, T, ()>,
}
impl<'a, T> Iterator for SetDrain<'a, T> {
    type Item = T;
    #[inline]
    fn next(&mut self) -> Option<T> {
        self.inner.next().map(|(k, _)| k)
    }
}

pub struct Difference<'a, T> {
    inner: SetIter<'a, T>,
    other: &'a FnvHashSet<T>,
}
impl<'a, T> Clone for Difference<'a, T> {
    fn clone(&self) -> Self {
        Difference {
            inner: self.inner.clone(),
            other: self.other,
        }
    }
}
impl<'a, T: Eq> Iterator for Difference<'a, T> {
    type Item = &'a T;
    fn next(&mut self) -> Option<&'a T> {
        loop {
            match self.inner.next() {
                None => return None,
                Some(v) => {
                    if !self.other.contains(v) {
                        return Some(v);
                    }
                }
            }
        }
    }
}

pub struct Intersection<'a, T> {
    inner: SetIter<'a, T>,
    other: &'a FnvHashSet<T>,
}
impl<'a, T: Eq> Iterator for Intersection<'a, T> {
    type Item = &'a T;
    fn next(&mut self) -> Option<&'a T> {
        loop {
            match self.inner.next() {
                None => return None,
                Some(v) => {
                    if self.other.contains(v) {
                        return Some(v);
                    }
                }
            }
        }
    }
}

pub struct Union<'a, T> {
    a: SetIter<'a, T>,
    b: Difference<'a, T>,
}
impl<'a, T: Eq> Iterator for Union<'a, T> {
    type Item = &'a T;
    fn next(&mut self) -> Option<&'a T> {
        match self.a.next() {
            Some(v) => Some(v),
            None => self.b.next(),
        }
    }
}

impl<T> IntoIterator for FnvHashSet<T> {
    type Item = T;
    type IntoIter = SetIntoIter<T>;
    #[inline]
    fn into_iter(self) -> SetIntoIter<T> {
        SetIntoIter {
            inner: self.map.into_iter(),
        }
    }
}
impl<'a, T> IntoIterator for &'a FnvHashSet<T> {
    type Item = &'a T;
    type IntoIter = SetIter<'a, T>;
    #[inline]
    fn into_iter(self) -> SetIter<'a, T> {
        self.iter()
    }
}

impl<T: Eq> FromIterator<T> for FnvHashSet<T> {
    fn from_iter<I: IntoIterator<Item = T>>(iter: I) -> Self {
        let mut s = Self::default();
        for v in iter {
            s.insert(v);
        }
        s
    }
}
impl<T: Eq> Extend<T> for FnvHashSet<T> {
    fn extend<I: IntoIterator<Item = T>>(&mut self, iter: I) {
        for v in iter {
            self.insert(v);
        }
    }
}
impl<'a, T: Eq + Copy> Extend<&'a T> for FnvHashSet<T> {
    fn extend<I: IntoIterator<Item = &'a T>>(&mut self, iter: I) {
        for v in iter {
            self.insert(*v);
        }
    }
}
impl<T: Eq, const N: usize> From<[T; N]> for FnvHashSet<T> {
    fn from(a: [T; N]) -> Self {
        a.into_iter().collect()
    }
}

impl<T: Clone> Clone for FnvHashSet<T> {
    fn clone(&self) -> Self {
        FnvHashSet {
            map: self.map.clone(),
        }
    }
}
impl<T: Eq> PartialEq for FnvHashSet<T> {
    fn eq(&self, other: &Self) -> bool {
        self.len() == other.len() && self.is_subset(other)
    }
}
impl<T: Eq> Eq for FnvHashSet<T> {}
impl<T: fmt::Debug> fmt::Debug for FnvHashSet<T> {
    fn fmt(&self, f: &mut fmt::Formatter<'_>) -> fmt::Result {
        f.debug_set().entries(self.iter()).finish()
    }
}
