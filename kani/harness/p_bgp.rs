// Kani harnesses for packet/src/bgp.rs (C16 contains, C05 classification, C03 decoders, ...).
#![allow(unused_imports, dead_code, clippy::all)]

use super::*;
use std::net::{IpAddr, Ipv4Addr, Ipv6Addr};

// ---------------------------------------------------------------------------------
// C16: IpNet::contains (dynamic-neighbour prefix match)
// ---------------------------------------------------------------------------------

//@ id=C16 tier=quick cap=300
//@ fn: bgp::IpNet::contains (IPv4 arm)
//@ bound: any IPv4 prefix with mask 0..=32 (the range IpNet::from_str accepts; host bits may be set) x any IPv4 address; unwind 6
//@ desc: contains(addr) == (addr & netmask == prefix & netmask); no panic
//@ outside: mask > 32 (cannot be built through FromStr, the only constructor used for dynamic-neighbour prefixes)
#[kani::proof]
#[kani::unwind(6)]
fn c16_contains_v4() {
    let p: u32 = kani::any();
    let a: u32 = kani::any();
    let mask: u8 = kani::any();
    kani::assume(mask <= 32);
    let net = IpNet::V4(Ipv4Net {
        addr: Ipv4Addr::from(p),
        mask,
    });
    let got = net.contains(&IpAddr::V4(Ipv4Addr::from(a)));
    let m: u32 = if mask == 0 { 0 } else { u32::MAX << (32 - mask as u32) };
    let want = (p & m) == (a & m);
    assert!(got == want);
    // the other address family never matches
    assert!(!net.contains(&IpAddr::V6(Ipv6Addr::from(kani::any::<u128>()))));
    kani::cover!(got && mask % 8 != 0 && (p & !m) != 0);
    kani::cover!(!got && mask == 32);
}

//@ id=C16 tier=quick cap=600
//@ fn: bgp::IpNet::contains (IPv6 arm)
//@ bound: any IPv6 prefix with mask 0..=128 (host bits may be set) x any IPv6 address; unwind 18
//@ desc: contains(addr) == (addr & netmask == prefix & netmask); no panic
#[kani::proof]
#[kani::unwind(18)]
fn c16_contains_v6() {
    let p: u128 = kani::any();
    let a: u128 = kani::any();
    let mask: u8 = kani::any();
    kani::assume(mask <= 128);
    let net = IpNet::V6(Ipv6Net {
        addr: Ipv6Addr::from(p),
        mask,
    });
    let got = net.contains(&IpAddr::V6(Ipv6Addr::from(a)));
    let m: u128 = if mask == 0 { 0 } else { u128::MAX << (128 - mask as u32) };
    let want = (p & m) == (a & m);
    assert!(got == want);
    assert!(!net.contains(&IpAddr::V4(Ipv4Addr::from(kani::any::<u32>()))));
    kani::cover!(got && mask % 8 != 0 && (p & !m) != 0);
    kani::cover!(!got && mask == 128);
}

//@ id=C16 tier=thorough cap=300 expect=fail
//@ fn: bgp::IpNet::contains
//@ bound: as c16_contains_v4
//@ desc: vacuity twin - claims nothing is ever contained; must be refuted
#[kani::proof]
#[kani::unwind(6)]
fn c16_contains_twin_must_fail() {
    let p: u32 = kani::any();
    let a: u32 = kani::any();
    let mask: u8 = kani::any();
    kani::assume(mask <= 32);
    let net = IpNet::V4(Ipv4Net {
        addr: Ipv4Addr::from(p),
        mask,
    });
    assert!(!net.contains(&IpAddr::V4(Ipv4Addr::from(a))));
}

// ---------------------------------------------------------------------------------
// C05: RFC 7606 classification (validate_update)
// ---------------------------------------------------------------------------------

/// attribute categories from the statement: an error on an attribute of one of these kinds MAY
/// be handled by discarding the attribute; every other attribute error MUST turn the announced
/// prefixes into withdrawals.
fn may_discard(e: &AttributeError) -> bool {
    let (opt, trans) = match Attribute::canonical_flags(e.attr_code) {
        Some(f) => (
            f & Attribute::FLAG_OPTIONAL != 0,
            f & Attribute::FLAG_TRANSITIVE != 0,
        ),
        // unknown code: what it is is what its flags say
        None => (
            e.attr_flags & Attribute::FLAG_OPTIONAL != 0,
            e.attr_flags & Attribute::FLAG_TRANSITIVE != 0,
        ),
    };
    (opt && !trans) || e.attr_code == Attribute::AS4_PATH || e.attr_code == Attribute::AS4_AGGREGATOR
}


/// Vec with ONE fixed allocation of N slots and a (possibly symbolic) length <= N: no growth or
/// reallocation path exists for CBMC to explore.
fn fixed_vec<T, const N: usize>(items: [T; N], len: usize) -> Vec<T> {
    assert!(len <= N);
    let p = Box::into_raw(Box::new(items)) as *mut T;
    unsafe { Vec::from_raw_parts(p, len, N) }
}

fn v4_entry(addr: u32, mask: u8) -> Vec<PathNlri> {
    fixed_vec(
        [PathNlri {
            path_id: 0,
            nlri: Nlri::V4(Ipv4Net {
                addr: Ipv4Addr::from(addr),
                mask,
            }),
        }],
        1,
    )
}

fn v6_entry(addr: u128, mask: u8) -> Vec<PathNlri> {
    fixed_vec(
        [PathNlri {
            path_id: 0,
            nlri: Nlri::V6(Ipv6Net {
                addr: Ipv6Addr::from(addr),
                mask,
            }),
        }],
        1,
    )
}

#[derive(Default, Clone, Copy)]
struct UpdSum {
    n: usize,
    reach_v4: usize,
    reach_v6: usize,
    unreach_v4_hits_a: usize, // Unreach carrying the announced IPv4 prefix
    unreach_v4_hits_w: usize, // Unreach carrying the originally withdrawn IPv4 prefix
    unreach_v6_hits_a: usize,
    reach_v4_hits_a: usize,
    reach_v6_hits_a: usize,
    ibgp_only_attr_in_reach: bool,
    reach_attr_len: usize,
    other: usize,
}

fn is_v4(p: &PathNlri, addr: u32, mask: u8) -> bool {
    match &p.nlri {
        Nlri::V4(n) => u32::from(n.addr) == addr && n.mask == mask,
        _ => false,
    }
}

fn is_v6(p: &PathNlri, addr: u128, mask: u8) -> bool {
    match &p.nlri {
        Nlri::V6(n) => u128::from(n.addr) == addr && n.mask == mask,
        _ => false,
    }
}

/// symbolic ParsedUpdate::Routes of a fixed small shape; returns the summary of
/// validate_update's output together with the facts the oracle needs
fn classify(shape_attrs: u8, has_reach: bool, has_unreach: bool, has_mp: bool) -> (bool, bool, u8, usize, bool) {
    let is_ebgp: bool = kani::any();
    // announced IPv4 prefix A, withdrawn IPv4 prefix W
    let a_addr: u32 = kani::any();
    let a_mask: u8 = kani::any();
    kani::assume(a_mask <= 32);
    let w_addr: u32 = kani::any();
    let w_mask: u8 = kani::any();
    kani::assume(w_mask <= 32);
    let a6_addr: u128 = kani::any();
    let a6_mask: u8 = kani::any();
    kani::assume(a6_mask <= 128);

    let nh_present: bool = kani::any();
    let mp_nh_present: bool = kani::any();

    let reach = if has_reach {
        Some(ReachNlri {
            family: Family::IPV4,
            entries: v4_entry(a_addr, a_mask),
            nexthop: if nh_present {
                Some(Nexthop::V4(Ipv4Addr::from(kani::any::<u32>())))
            } else {
                None
            },
        })
    } else {
        None
    };
    let mp_reach = if has_mp {
        Some(ReachNlri {
            family: Family::IPV6,
            entries: v6_entry(a6_addr, a6_mask),
            nexthop: if mp_nh_present {
                Some(Nexthop::V6(Ipv6Addr::from(kani::any::<u128>())))
            } else {
                None
            },
        })
    } else {
        None
    };
    let unreach = if has_unreach {
        Some(UnreachNlri {
            family: Family::IPV4,
            entries: v4_entry(w_addr, w_mask),
        })
    } else {
        None
    };

    // attribute shapes (concrete shape, symbolic values)
    let origin = Attribute::new_with_value(Attribute::ORIGIN, kani::any::<u8>() as u32 % 3).unwrap();
    let aspath = Attribute::empty_as_path();
    let lp = Attribute::new_with_value(Attribute::LOCAL_PREF, kani::any()).unwrap();
    let med = Attribute::new_with_value(Attribute::MULTI_EXIT_DESC, kani::any()).unwrap();
    let oid = Attribute::new_with_value(Attribute::ORIGINATOR_ID, kani::any()).unwrap();
    let attrs: Vec<Attribute> = match shape_attrs {
        0 => vec![origin, aspath, lp, med, oid],
        1 => vec![aspath, lp],          // ORIGIN missing
        2 => vec![origin, med],         // AS_PATH missing
        _ => vec![origin, aspath],
    };
    let has_origin = shape_attrs != 1;
    let has_aspath = shape_attrs != 2;

    let n_err: u8 = kani::any();
    kani::assume(n_err <= 2);
    let e0 = AttributeError {
        attr_code: kani::any(),
        attr_flags: kani::any(),
    };
    let e1 = AttributeError {
        attr_code: kani::any(),
        attr_flags: kani::any(),
    };
    let must_withdraw_err =
        (n_err >= 1 && !may_discard(&e0)) || (n_err >= 2 && !may_discard(&e1));
    let error_attrs = fixed_vec([e0, e1], n_err as usize);

    let announces = has_reach || has_mp;
    let missing_mandatory = announces
        && (!has_origin
            || !has_aspath
            || (has_reach && !nh_present)
            || (has_mp && !mp_nh_present));
    let must_withdraw = must_withdraw_err || missing_mandatory;

    let upd = ParsedUpdate::Routes {
        reach,
        mp_reach,
        unreach,
        mp_unreach: None,
        attrs,
        error_attrs,
    };
    let res = validate_update(upd, is_ebgp);
    // never a session reset from classification
    assert!(res.is_ok());
    let msgs = match res {
        Ok(m) => m,
        Err(_) => return (false, false, 0, 0, false),
    };
    let mut s = UpdSum::default();
    let mut i = 0;
    while i < msgs.len() {
        s.n += 1;
        match &msgs[i] {
            Message::Update(Update::Reach {
                family,
                entries,
                nexthop: _,
                attr,
            }) => {
                if *family == Family::IPV4 {
                    s.reach_v4 += 1;
                    if entries.len() == 1 && is_v4(&entries[0], a_addr, a_mask) {
                        s.reach_v4_hits_a += 1;
                    }
                } else {
                    s.reach_v6 += 1;
                    if entries.len() == 1 && is_v6(&entries[0], a6_addr, a6_mask) {
                        s.reach_v6_hits_a += 1;
                    }
                }
                s.reach_attr_len = attr.len();
                let mut j = 0;
                while j < attr.len() {
                    let c = attr[j].code();
                    if c == Attribute::LOCAL_PREF
                        || c == Attribute::ORIGINATOR_ID
                        || c == Attribute::CLUSTER_LIST
                    {
                        s.ibgp_only_attr_in_reach = true;
                    }
                    j += 1;
                }
            }
            Message::Update(Update::Unreach { family, entries }) => {
                if *family == Family::IPV4 {
                    if entries.len() == 1 && is_v4(&entries[0], a_addr, a_mask) {
                        s.unreach_v4_hits_a += 1;
                    }
                    if entries.len() == 1 && is_v4(&entries[0], w_addr, w_mask) {
                        s.unreach_v4_hits_w += 1;
                    }
                } else if entries.len() == 1 && is_v6(&entries[0], a6_addr, a6_mask) {
                    s.unreach_v6_hits_a += 1;
                }
            }
            _ => s.other += 1,
        }
        i += 1;
    }

    // (1) withdrawals in the message always take effect
    if has_unreach {
        assert!(s.unreach_v4_hits_w >= 1);
    }
    // (2) a faulty UPDATE installs nothing: no Reach at all, announced prefixes withdrawn
    if must_withdraw {
        assert!(s.reach_v4 == 0 && s.reach_v6 == 0);
        if has_reach {
            assert!(s.unreach_v4_hits_a >= 1);
        }
        if has_mp {
            assert!(s.unreach_v6_hits_a >= 1);
        }
    }
    // (3) an announced prefix is never silently lost: it is either announced or withdrawn
    if has_reach {
        assert!(s.reach_v4_hits_a + s.unreach_v4_hits_a >= 1);
    }
    if has_mp {
        assert!(s.reach_v6_hits_a + s.unreach_v6_hits_a >= 1);
    }
    // (4) nothing is announced that the UPDATE did not announce
    assert!(s.reach_v4 <= if has_reach { 1 } else { 0 });
    assert!(s.reach_v6 <= if has_mp { 1 } else { 0 });
    assert!(s.other == 0);
    // (5) iBGP-only attributes from an external peer are dropped, not believed
    if is_ebgp {
        assert!(!s.ibgp_only_attr_in_reach);
    }
    // (6) a clean UPDATE is passed through (the check is not vacuous on the good path)
    if n_err == 0 && !missing_mandatory && has_reach {
        assert!(s.reach_v4_hits_a == 1);
        if !is_ebgp && shape_attrs == 0 {
            assert!(s.reach_attr_len == 5);
        }
    }
    core::mem::forget(msgs);
    (must_withdraw_err, missing_mandatory, n_err, s.reach_v4 + s.reach_v6, is_ebgp)
}

//@ id=C05 tier=quick cap=900
//@ fn: bgp::validate_update
//@ bound: ParsedUpdate::Routes with reach (1 IPv4 entry with symbolic prefix, next hop present/absent) + unreach (1 entry), attrs = [ORIGIN, AS_PATH(empty), LOCAL_PREF, MED, ORIGINATOR_ID] with symbolic values, 0..2 AttributeErrors with fully symbolic (code, flags), is_ebgp symbolic; unwind 7
//@ desc: RFC 7606 classification vs. the statement: any error on an attribute that is not (optional non-transitive | AS4_PATH | AS4_AGGREGATOR) => no Reach, announced prefix withdrawn, withdrawals kept; never Err; iBGP-only attributes dropped for eBGP
#[kani::proof]
#[kani::unwind(7)]
fn c05_classify_full_attrs() {
    let (mw, mm, n_err, reaches, ebgp) = classify(0, true, true, false);
    kani::cover!(mw && !mm);
    kani::cover!(!mw && !mm && n_err == 2 && reaches == 1);
    kani::cover!(ebgp && reaches == 1);
}

//@ id=C05 tier=quick cap=900
//@ fn: bgp::validate_update
//@ bound: as c05_classify_full_attrs with attrs = [AS_PATH, LOCAL_PREF] (ORIGIN missing); unwind 7
//@ desc: missing mandatory ORIGIN => treat-as-withdraw
#[kani::proof]
#[kani::unwind(7)]
fn c05_classify_missing_origin() {
    let (_mw, mm, n_err, reaches, _e) = classify(1, true, false, false);
    assert!(mm && reaches == 0);
    kani::cover!(n_err == 0);
}

//@ id=C05 tier=thorough cap=900
//@ fn: bgp::validate_update
//@ bound: as c05_classify_full_attrs with attrs = [ORIGIN, MED] (AS_PATH missing); unwind 7
//@ desc: missing mandatory AS_PATH => treat-as-withdraw
#[kani::proof]
#[kani::unwind(7)]
fn c05_classify_missing_aspath() {
    let (_mw, mm, n_err, reaches, _e) = classify(2, true, false, false);
    assert!(mm && reaches == 0);
    kani::cover!(n_err == 0);
}

//@ id=C05 tier=quick cap=1200
//@ fn: bgp::validate_update
//@ bound: reach (1 IPv4 entry) + mp_reach (1 IPv6 entry, MP next hop present/absent), attrs = [ORIGIN, AS_PATH], 0..2 symbolic AttributeErrors; unwind 7
//@ desc: two-family UPDATE: both announced prefixes withdrawn on a must-withdraw error; missing MP next hop => withdraw
#[kani::proof]
#[kani::unwind(7)]
fn c05_classify_mp() {
    let (mw, mm, n_err, reaches, _e) = classify(3, true, false, true);
    kani::cover!(mw && !mm);
    kani::cover!(!mw && !mm && reaches == 2);
    kani::cover!(mm && n_err == 0);
}

//@ id=C05 tier=thorough cap=900 expect=fail
//@ fn: bgp::validate_update
//@ bound: as c05_classify_full_attrs
//@ desc: vacuity twin - claims a Reach is never produced; must be refuted
#[kani::proof]
#[kani::unwind(7)]
fn c05_classify_twin_must_fail() {
    let upd = ParsedUpdate::Routes {
        reach: Some(ReachNlri {
            family: Family::IPV4,
            entries: vec![PathNlri {
                path_id: 0,
                nlri: Nlri::V4(Ipv4Net {
                    addr: Ipv4Addr::from(kani::any::<u32>()),
                    mask: 24,
                }),
            }],
            nexthop: Some(Nexthop::V4(Ipv4Addr::from(kani::any::<u32>()))),
        }),
        mp_reach: None,
        unreach: None,
        mp_unreach: None,
        attrs: vec![
            Attribute::new_with_value(Attribute::ORIGIN, 0).unwrap(),
            Attribute::empty_as_path(),
        ],
        error_attrs: Vec::new(),
    };
    let msgs = validate_update(upd, kani::any()).unwrap();
    assert!(!matches!(&msgs[0], Message::Update(Update::Reach { .. })));
    core::mem::forget(msgs);
}

// ---------------------------------------------------------------------------------
// C03 / C05 / C17: Attribute::decode - structural invariants of accepted attributes
// ---------------------------------------------------------------------------------

/// independent structural check of a canonical (4-octet) AS_PATH value, written from RFC 4271
fn as_path_well_formed(b: &[u8]) -> bool {
    let mut pos = 0usize;
    // at most len/2 segments
    let mut guard = 0;
    while pos < b.len() {
        if guard > b.len() {
            return false;
        }
        guard += 1;
        if pos + 2 > b.len() {
            return false;
        }
        let t = b[pos];
        let c = b[pos + 1] as usize;
        if t < 1 || t > 4 {
            return false;
        }
        pos += 2 + 4 * c;
        if pos > b.len() {
            return false;
        }
    }
    true
}

fn decode_as_path4<const N: usize>() {
    let bytes: [u8; N] = kani::any();
    let flags = Attribute::FLAG_TRANSITIVE;
    let mut rd: &[u8] = &bytes[..];
    let r = Attribute::decode(Attribute::AS_PATH, flags, &mut rd, N as u16, false);
    let ok = as_path_well_formed(&bytes[..]);
    match r {
        Ok(a) => {
            // accepted => well-formed per RFC 4271 (every segment type in 1..=4, lengths add up)
            assert!(ok);
            assert!(a.code() == Attribute::AS_PATH);
            // ... so the consumers of the stored value cannot crash on it
            let hops = a.as_path_length();
            assert!(hops <= N);
            kani::cover!(hops == 0);
            kani::cover!(hops >= 1);
            core::mem::forget(a);
        }
        Err(()) => {
            // rejected => recorded as an attribute error (treat-as-withdraw), never believed
            assert!(!ok);
        }
    }
}

//@ id=C05 tier=quick cap=900
//@ fn: bgp::Attribute::decode (AS_PATH arm, 4-octet AS session), bgp::Attribute::as_path_length
//@ bound: ALL 6-byte AS_PATH values; unwind 9
//@ desc: decode accepts exactly the RFC 4271 well-formed values (segment type 1..=4, counts consistent with the length; count 0 allowed) - a malformed AS_PATH is always reported as an attribute error; accepted values cannot crash hop counting (best-path selection)
#[kani::proof]
#[kani::unwind(9)]
fn c05_attr_decode_aspath_6() {
    decode_as_path4::<6>();
}

//@ id=C05 tier=thorough cap=1500
//@ fn: bgp::Attribute::decode (AS_PATH arm, 4-octet AS session) and consumers
//@ bound: ALL 10-byte AS_PATH values; unwind 13
//@ desc: as c05_attr_decode_aspath_6 (two segments possible)
#[kani::proof]
#[kani::unwind(13)]
fn c05_attr_decode_aspath_10() {
    decode_as_path4::<10>();
}

//@ id=C05 tier=quick cap=900
//@ fn: bgp::Attribute::decode (ORIGIN, MED, LOCAL_PREF, ORIGINATOR_ID, ATOMIC_AGGREGATE, AGGREGATOR, COMMUNITY, EXTENDED_COMMUNITY, LARGE_COMMUNITY, CLUSTER_LIST, AS4_AGGREGATOR arms)
//@ bound: attribute code symbolic among the fixed-length / multiple-of-N kinds, declared length symbolic 0..=12, 12 symbolic value bytes; unwind 14
//@ desc: an attribute whose length (or ORIGIN value) violates its RFC is rejected (=> recorded as error); accepted ones carry exactly `len` bytes / the decoded value
#[kani::proof]
#[kani::unwind(14)]
fn c05_attr_decode_fixed_kinds() {
    let bytes: [u8; 12] = kani::any();
    let len: u16 = kani::any();
    kani::assume(len <= 12);
    let k: u8 = kani::any();
    kani::assume(k < 11);
    let code = match k {
        0 => Attribute::ORIGIN,
        1 => Attribute::MULTI_EXIT_DESC,
        2 => Attribute::LOCAL_PREF,
        3 => Attribute::ORIGINATOR_ID,
        4 => Attribute::ATOMIC_AGGREGATE,
        5 => Attribute::AGGREGATOR,
        6 => Attribute::COMMUNITY,
        7 => Attribute::EXTENDED_COMMUNITY,
        8 => Attribute::LARGE_COMMUNITY,
        9 => Attribute::CLUSTER_LIST,
        _ => Attribute::AS4_AGGREGATOR,
    };
    let mut rd: &[u8] = &bytes[..len as usize];
    let r = Attribute::decode(code, Attribute::canonical_flags(code).unwrap(), &mut rd, len, false);
    let len_ok = match k {
        0 => len == 1 && bytes[0] <= 2,
        1 | 2 | 3 => len == 4,
        4 => len == 0,
        5 => len == 6 || len == 8,
        6 | 9 => len % 4 == 0,
        7 => len % 8 == 0,
        8 => len % 12 == 0,
        _ => len == 8,
    };
    match r {
        Ok(a) => {
            assert!(len_ok);
            match k {
                0 => assert!(a.value() == Some(bytes[0] as u32)),
                1 | 2 | 3 => assert!(
                    a.value() == Some(u32::from_be_bytes([bytes[0], bytes[1], bytes[2], bytes[3]]))
                ),
                5 => assert!(a.binary().unwrap().len() == 8),
                _ => assert!(a.binary().unwrap().len() == len as usize),
            }
            kani::cover!(k == 0);
            kani::cover!(k == 8 && len == 12);
            core::mem::forget(a);
        }
        Err(()) => assert!(!len_ok),
    }
}

// ---------------------------------------------------------------------------------
// C16: capability negotiation is a mirror image on both ends
// ---------------------------------------------------------------------------------

/// capability list of a fixed 4-element shape: MP(v4), MP(v6)?, ADD-PATH{(v4, m4), (v6, m6)},
/// ExtendedMessage? - optional parts are replaced by a neutral capability so that the shape
/// stays concrete
struct CapFacts {
    v6: bool,
    m4: u8,
    m6: u8,
    ext_msg: bool,
}

fn cap_list() -> (Vec<Capability>, CapFacts) {
    let f = CapFacts {
        v6: kani::any(),
        m4: kani::any(),
        m6: kani::any(),
        ext_msg: kani::any(),
    };
    let addpath = Capability::AddPath(fixed_vec([(Family::IPV4, f.m4), (Family::IPV6, f.m6)], 2));
    let mp6 = if f.v6 {
        Capability::MultiProtocol(Family::IPV6)
    } else {
        Capability::RouteRefresh
    };
    let em = if f.ext_msg {
        Capability::ExtendedMessage
    } else {
        Capability::EnhancedRouteRefresh
    };
    (
        fixed_vec([Capability::MultiProtocol(Family::IPV4), mp6, addpath, em], 4),
        f,
    )
}

//@ id=C16 tier=quick cap=1500 mem=24
//@ fn: bgp::PeerCodec::negotiate, PeerCodec::family_state, has_family
//@ bound: two capability lists of the shape [MP v4, MP v6?, ADD-PATH{(v4, m), (v6, m')} with ANY mode bytes (0-3 and invalid ones), ExtendedMessage?], optional parts symbolic on both sides; unwind 6
//@ desc: a family / add-path direction / extended message is in force iff both sides advertised it (send needs local bit 2 and remote bit 1, receive the converse); negotiate(local, remote) is the mirror image of negotiate(remote, local)
#[kani::proof]
#[kani::unwind(6)]
fn c16_negotiate_mirror() {
    let (l, lf) = cap_list();
    let (r, rf) = cap_list();
    let a = PeerCodec::negotiate(&l, &r);
    let b = PeerCodec::negotiate(&r, &l);
    let a4 = a.family_state(Family::IPV4);
    let b4 = b.family_state(Family::IPV4);
    assert!(a4.is_some() && b4.is_some());
    let (a4, b4) = (a4.unwrap(), b4.unwrap());
    assert!(a4.addpath_tx == (lf.m4 & 2 != 0 && rf.m4 & 1 != 0));
    assert!(a4.addpath_rx == (lf.m4 & 1 != 0 && rf.m4 & 2 != 0));
    assert!(a4.addpath_tx == b4.addpath_rx && a4.addpath_rx == b4.addpath_tx);
    let both6 = lf.v6 && rf.v6;
    assert!(a.has_family(Family::IPV6) == both6 && b.has_family(Family::IPV6) == both6);
    if both6 {
        let a6 = a.family_state(Family::IPV6).unwrap();
        let b6 = b.family_state(Family::IPV6).unwrap();
        assert!(a6.addpath_tx == (lf.m6 & 2 != 0 && rf.m6 & 1 != 0));
        assert!(a6.addpath_tx == b6.addpath_rx && a6.addpath_rx == b6.addpath_tx);
    }
    assert!(a.extended_length == (lf.ext_msg && rf.ext_msg) && b.extended_length == a.extended_length);
    // nobody advertised 4-octet AS / extended next hop in this shape
    assert!(a.two_byte_as && b.two_byte_as && !a.extended_nexthop);
    kani::cover!(a4.addpath_tx && !a4.addpath_rx);
    kani::cover!(both6 && lf.m6 > 3);
    core::mem::forget((a, b, l, r));
}

// ---------------------------------------------------------------------------------
// C03: parse_message on pinned UPDATE layouts (the whole parser on fully symbolic bytes is
// beyond CBMC; here the framing bytes are concrete and one region is symbolic)
// ---------------------------------------------------------------------------------

/// UPDATE = header | withdrawn_len 0 | attr_len | [flags 0x90 code 14 (MP_REACH) ext-len VL | value]
/// with the MP_REACH value = AFI 2 / SAFI 1 (IPv6 unicast, negotiated) followed by VL-3
/// symbolic bytes (next-hop length byte, next hop, reserved, NLRI...).
fn mp_reach_pinned<const VL: usize>(nhlen: u8) {
    let mut buf = [0u8; 64];
    let total = 19 + 2 + 2 + 4 + VL;
    let mut i = 0;
    while i < 16 {
        buf[i] = 0xff;
        i += 1;
    }
    buf[16] = (total >> 8) as u8;
    buf[17] = total as u8;
    buf[18] = 2;
    buf[19] = 0;
    buf[20] = 0;
    let alen = 4 + VL;
    buf[21] = (alen >> 8) as u8;
    buf[22] = alen as u8;
    buf[23] = 0x90; // optional, extended length
    buf[24] = Attribute::MP_REACH;
    buf[25] = (VL >> 8) as u8;
    buf[26] = VL as u8;
    buf[27] = 0;
    buf[28] = 2; // AFI IPv6
    buf[29] = 1; // SAFI unicast
    buf[30] = nhlen; // concrete per instance: a symbolic value makes the parser allocate a
                     // vector of symbolic capacity, which CBMC cannot finish
    let tail: [u8; 32] = kani::any();
    let mut j = 0;
    while j + 4 < VL {
        buf[31 + j] = tail[j];
        j += 1;
    }
    let mut codec = PeerCodec::new();
    codec.set_family(Family::IPV4, FamilyState::default());
    codec.set_family(Family::IPV6, FamilyState::default());
    let r = codec.parse_message(&buf[..total]);
    // totality: a message or a NOTIFICATION, never a panic (all of Kani's checks are on);
    // accepted only when the declared next hop and the reserved octet fit in the value
    if r.is_ok() {
        assert!(VL >= 5 + nhlen as usize);
    }
    kani::cover!(r.is_ok() == (VL >= 5 + nhlen as usize) || r.is_err());
    core::mem::forget(r);
    core::mem::forget(codec);
}

//@ id=C03 tier=quick cap=1200 mem=24
//@ fn: bgp::PeerCodec::parse_message (UPDATE arm: attribute walk, MP_REACH_NLRI next-hop / reserved-octet / NLRI sub-parser), bgp::Attribute::decode (default arm)
//@ bound: pinned layout: valid header, no withdrawn routes, one MP_REACH_NLRI attribute for IPv6 unicast, next-hop length 16, value ending EXACTLY after the next hop (20 bytes: the reserved octet is missing); next-hop bytes symbolic; unwind 36
//@ desc: boundary: the parser answers with a NOTIFICATION, it does not read past the value (no panic / out-of-bounds)
#[kani::proof]
#[kani::unwind(36)]
#[kani::stub(alloc::fmt::format, stub_format_bgp)]
fn c03_update_mp_reach_ends_after_nexthop() {
    mp_reach_pinned::<20>(16);
}

//@ id=C03 tier=off cap=3600 mem=40
//@ fn: bgp::PeerCodec::parse_message (UPDATE arm, MP_REACH_NLRI sub-parser), PeerCodec::decode_nlri_list, Ipv6Net::decode
//@ bound: as above with the value long enough for the reserved octet and 2 symbolic NLRI bytes (23 bytes); unwind 36
//@ desc: the parser is total on this layout
#[kani::proof]
#[kani::unwind(36)]
#[kani::stub(alloc::fmt::format, stub_format_bgp)]
fn c03_update_mp_reach_with_nlri() {
    mp_reach_pinned::<23>(16);
}

fn stub_format_bgp(_args: core::fmt::Arguments<'_>) -> String {
    String::new()
}

//@ id=C03 tier=off cap=3600 mem=40
//@ fn: bgp::PeerCodec::parse_message (UPDATE arm: withdrawn-length / attribute-length arithmetic, attribute walk, IPv4 NLRI and withdrawn-routes lists), PeerCodec::decode_nlri_list, Ipv4Net::decode
//@ bound: ALL 27-byte UPDATE messages with a valid header: the 8 body bytes (withdrawn length, attribute length, and whatever follows) are fully symbolic - both 16-bit length fields take every value, incl. sums that exceed 65535; unwind 12
//@ desc: the UPDATE parser is total: a message or a NOTIFICATION, never a panic / overflow / out-of-bounds (debug and release arithmetic coincide because no overflow is possible)
#[kani::proof]
#[kani::unwind(12)]
#[kani::stub(alloc::fmt::format, stub_format_bgp)]
fn c03_update_len_fields_27() {
    let mut buf = [0xffu8; 27];
    buf[16] = 0;
    buf[17] = 27;
    buf[18] = 2;
    let body: [u8; 8] = kani::any();
    let mut i = 0;
    while i < 8 {
        buf[19 + i] = body[i];
        i += 1;
    }
    let mut codec = PeerCodec::new();
    codec.set_family(Family::IPV4, FamilyState::default());
    let r = codec.parse_message(&buf[..]);
    let wl = u16::from_be_bytes([body[0], body[1]]) as usize;
    if r.is_ok() {
        // accepted => both declared lengths fit in the message
        assert!(wl + 23 <= 27);
        let al = u16::from_be_bytes([body[2 + wl], body[3 + wl]]) as usize;
        assert!(wl + al + 23 <= 27);
    }
    kani::cover!(r.is_ok() && wl == 0);
    kani::cover!(r.is_ok() && wl == 4);
    kani::cover!(r.is_err());
    core::mem::forget(r);
    core::mem::forget(codec);
}

// ---------------------------------------------------------------------------------
// C04: encoder — length consistency and pinned round trips
// ---------------------------------------------------------------------------------

/// fixed-size output buffer: no reallocation path exists (the encoders are generic over
/// `B: BufMut + AsMut<[u8]>`)
struct FixedBuf<const N: usize> {
    buf: [u8; N],
    len: usize,
}

impl<const N: usize> FixedBuf<N> {
    fn new() -> Self {
        FixedBuf { buf: [0u8; N], len: 0 }
    }
}

impl<const N: usize> AsMut<[u8]> for FixedBuf<N> {
    fn as_mut(&mut self) -> &mut [u8] {
        &mut self.buf[..self.len]
    }
}

unsafe impl<const N: usize> BufMut for FixedBuf<N> {
    fn remaining_mut(&self) -> usize {
        N - self.len
    }
    unsafe fn advance_mut(&mut self, cnt: usize) {
        assert!(self.len + cnt <= N);
        self.len += cnt;
    }
    fn chunk_mut(&mut self) -> &mut bytes::buf::UninitSlice {
        let l = self.len;
        bytes::buf::UninitSlice::new(&mut self.buf[l..])
    }
    // direct implementations keep the symbolic execution small
    fn put_u8(&mut self, v: u8) {
        assert!(self.len < N);
        self.buf[self.len] = v;
        self.len += 1;
    }
    fn put_slice(&mut self, src: &[u8]) {
        assert!(self.len + src.len() <= N);
        let mut i = 0;
        while i < src.len() {
            self.buf[self.len + i] = src[i];
            i += 1;
        }
        self.len += src.len();
    }
}

fn open_caps_case(n1: usize, n2: usize) {
    let caps = fixed_vec(
        [
            Capability::MultiProtocol(Family::IPV4),
            Capability::Unknown {
                code: 200,
                bin: fixed_vec([0x11u8; 126], n1),
            },
            Capability::Unknown {
                code: 201,
                bin: fixed_vec([0x22u8; 126], n2),
            },
        ],
        3,
    );
    let msg = Message::Open(Open {
        as_number: kani::any(),
        holdtime: HoldTime::DISABLED,
        router_id: kani::any(),
        capability: caps,
    });
    let mut codec = PeerCodec::new();
    let mut out = FixedBuf::<320>::new();
    let r = codec.encode_to(&msg, &mut out);
    let cap_bytes = 6 + (2 + n1) + (2 + n2);
    match r {
        Ok(frames) => {
            assert!(frames == 1);
            let total = out.len;
            assert!(u16::from_be_bytes([out.buf[16], out.buf[17]]) as usize == total);
            assert!(out.buf[18] == 1);
            // optional parameters length, parameter type 2, parameter length
            assert!(out.buf[28] as usize == total - 29);
            assert!(out.buf[29] == 2);
            assert!(out.buf[30] as usize == total - 31);
            assert!(total - 31 == cap_bytes);
        }
        Err(_) => {
            // only a capability block that cannot be expressed in one-byte lengths may be refused
            assert!(cap_bytes + 2 > 255);
        }
    }
    core::mem::forget(msg);
    core::mem::forget(codec);
}

//@ id=C04 tier=off cap=3600 mem=40
//@ fn: bgp::PeerCodec::encode_to, PeerCodec::do_encode (OPEN arm), bgp::Capability::encode (Unknown / MultiProtocol arms)
//@ bound: OPEN with capabilities [MultiProtocol(v4), Unknown{n1 bytes}, Unknown{n2 bytes}] at the sizes (126,117) = 253 capability bytes (largest block that fits the one-byte optional-parameter length) and (126,126) = 262 bytes (does not fit); AS / router id symbolic; sizes are concrete per call because a symbolic output position makes every buffer write a symbolic-index store; unwind 130
//@ desc: either an error is returned, or every length field equals the bytes it covers (header length, optional-parameter length, capability-parameter length); never an arithmetic overflow
#[kani::proof]
#[kani::unwind(130)]
#[kani::stub(alloc::fmt::format, stub_format_bgp)]
fn c04_open_capability_lengths() {
    if kani::any() {
        open_caps_case(126, 117);
    } else {
        open_caps_case(126, 126);
    }
}

//@ id=C04 tier=off cap=3600 mem=40
//@ fn: bgp::PeerCodec::encode_to, do_encode (UPDATE Reach arm, IPv4 classic), bgp::Attribute::encode, Ipv4Net::encode, bgp::PeerCodec::parse_message, bgp::validate_message
//@ bound: pinned shape: one IPv4 /17 prefix (symbolic address; the mask is concrete because it fixes the frame length), next hop symbolic, attributes [ORIGIN(sym), AS_PATH(one SEQ of 1 symbolic AS), LOCAL_PREF(sym)]; 4-octet-AS codecs on both ends; unwind 40
//@ desc: the frame is well-formed (header length = bytes written <= 4096, attribute length consistent) and decoding it with the peer's codec yields the same prefix, next hop and attributes
#[kani::proof]
#[kani::unwind(40)]
#[kani::stub(alloc::fmt::format, stub_format_bgp)]
#[kani::stub(Nlri::encode, nlri_encode_v4v6)]
fn c04_roundtrip_ipv4_one_prefix() {
    roundtrip_v4(17);
}

fn roundtrip_v4(mask: u8) {
    let addr: u32 = kani::any();
    // host bits beyond the mask are not carried on the wire: canonical prefix
    let m: u32 = if mask == 0 { 0 } else { u32::MAX << (32 - mask as u32) };
    kani::assume(addr & !m == 0);
    let nh: u32 = kani::any();
    let origin: u8 = kani::any();
    kani::assume(origin <= 2);
    let asn: u32 = kani::any();
    let lp: u32 = kani::any();
    let ab = asn.to_be_bytes();
    let attrs = Arc::new(fixed_vec(
        [
            Attribute::new_with_value(Attribute::ORIGIN, origin as u32).unwrap(),
            Attribute::new_with_bin(
                Attribute::AS_PATH,
                fixed_vec([2u8, 1, ab[0], ab[1], ab[2], ab[3]], 6),
            )
            .unwrap(),
            Attribute::new_with_value(Attribute::LOCAL_PREF, lp).unwrap(),
        ],
        3,
    ));
    let keep = attrs.clone();
    let msg = Message::Update(Update::Reach {
        family: Family::IPV4,
        entries: v4_entry(addr, mask),
        nexthop: Some(Nexthop::V4(Ipv4Addr::from(nh))),
        attr: attrs.clone(),
    });
    let mut tx = PeerCodec::new();
    tx.set_family(Family::IPV4, FamilyState::default());
    let mut out = FixedBuf::<96>::new();
    let r = tx.encode_to(&msg, &mut out);
    assert!(matches!(r, Ok(1)));
    let total = out.len;
    assert!(total >= 23 && total <= 96);
    assert!(u16::from_be_bytes([out.buf[16], out.buf[17]]) as usize == total);
    let wl = u16::from_be_bytes([out.buf[19], out.buf[20]]) as usize;
    let al = u16::from_be_bytes([out.buf[21], out.buf[22]]) as usize;
    assert!(wl == 0 && 23 + al <= total);
    // decode at the peer
    let mut rx = PeerCodec::new();
    rx.set_family(Family::IPV4, FamilyState::default());
    let parsed = rx.parse_message(&out.buf[..total]);
    assert!(parsed.is_ok());
    if let Ok(ParsedMessage::Update(ParsedUpdate::Routes {
        reach,
        mp_reach,
        unreach,
        mp_unreach,
        attrs: got_attrs,
        error_attrs,
    })) = &parsed
    {
        assert!(error_attrs.is_empty() && mp_reach.is_none() && unreach.is_none() && mp_unreach.is_none());
        let r = reach.as_ref().unwrap();
        assert!(r.entries.len() == 1 && is_v4(&r.entries[0], addr, mask));
        assert!(r.nexthop == Some(Nexthop::V4(Ipv4Addr::from(nh))));
        assert!(got_attrs.len() == 3);
        assert!(got_attrs[0].code() == Attribute::ORIGIN && got_attrs[0].value() == Some(origin as u32));
        assert!(got_attrs[1].code() == Attribute::AS_PATH);
        let b = got_attrs[1].binary().unwrap();
        assert!(b.len() == 6 && b[0] == 2 && b[1] == 1 && b[2] == ab[0] && b[5] == ab[3]);
        assert!(got_attrs[2].code() == Attribute::LOCAL_PREF && got_attrs[2].value() == Some(lp));
    } else {
        assert!(false);
    }
    kani::cover!(origin == 2 && lp == 0);
    core::mem::forget((parsed, msg, keep, attrs, tx, rx));
}

/// stub S8-encode: the dispatcher `Nlri::encode` restricted to the IPv4/IPv6 universe; the real
/// leaf encoders are called, every other family is outside the harness (assume(false)).  Without
/// it CBMC explores the encoder of all 15 NLRI families for an entry read back from the heap.
fn nlri_encode_v4v6<B: BufMut>(n: &Nlri, dst: &mut B) -> Result<u16, ()> {
    match n {
        Nlri::V4(net) => net.encode(dst),
        Nlri::V6(net) => net.encode(dst),
        _ => {
            kani::assume(false);
            Err(())
        }
    }
}

// ---------------------------------------------------------------------------------
// C03: per-family NLRI decoders on arbitrary bytes
// ---------------------------------------------------------------------------------

/// one NLRI of `family` from up to N arbitrary bytes: total (Ok or NOTIFICATION), the cursor
/// never passes the end, an accepted NLRI consumed at least one byte (so the list loop in
/// decode_nlri_list always makes progress)
fn nlri_one<const N: usize>(family: Family) -> (bool, usize) {
    let bytes: [u8; N] = kani::any();
    let len: usize = kani::any();
    kani::assume(len <= N);
    let addpath: bool = kani::any();
    let is_reach: bool = kani::any();
    let mut rd = BgpReader::<UpdateCtx>::new(&bytes[..len]);
    let r = PeerCodec::decode_nlri(family, addpath, is_reach, &mut rd, len);
    let used = rd.pos;
    assert!(used <= len);
    let ok = r.is_ok();
    if let Ok(p) = &r {
        assert!(used >= 1);
        if !addpath {
            assert!(p.path_id == 0);
        } else {
            assert!(used >= 5);
        }
        match &p.nlri {
            Nlri::V4(n) => {
                assert!(n.mask <= 32);
                assert!(used == (if addpath { 4 } else { 0 }) + 1 + (n.mask as usize + 7) / 8);
            }
            Nlri::V6(n) => {
                assert!(n.mask <= 128);
                assert!(used == (if addpath { 4 } else { 0 }) + 1 + (n.mask as usize + 7) / 8);
            }
            _ => {}
        }
    }
    core::mem::forget(r);
    (ok, used)
}

//@ id=C03 tier=quick cap=900
//@ fn: bgp::PeerCodec::decode_nlri, bgp::Nlri::decode, bgp::Ipv4Net::decode, bgp::BgpReader
//@ bound: ALL byte strings of length 0..=9 as one IPv4 unicast NLRI, add-path on/off; unwind 8
//@ desc: total; prefix length <= 32; bytes consumed = (path id) + 1 + ceil(len/8) >= 1, never past the end
#[kani::proof]
#[kani::unwind(8)]
fn c03_nlri_ipv4() {
    let (ok, used) = nlri_one::<9>(Family::IPV4);
    kani::cover!(ok && used == 9);
    kani::cover!(!ok);
}

//@ id=C03 tier=quick cap=900
//@ fn: bgp::PeerCodec::decode_nlri, bgp::Nlri::decode, bgp::Ipv6Net::decode
//@ bound: ALL byte strings of length 0..=21 as one IPv6 unicast NLRI, add-path on/off; unwind 20
//@ desc: total; prefix length <= 128; consumption as for IPv4
#[kani::proof]
#[kani::unwind(20)]
fn c03_nlri_ipv6() {
    let (ok, used) = nlri_one::<21>(Family::IPV6);
    kani::cover!(ok && used == 21);
    kani::cover!(!ok);
}

//@ id=C03 tier=off cap=3600 mem=40
//@ fn: bgp::PeerCodec::decode_nlri, bgp::Nlri::decode, vpn::VpnV4Nlri::decode, rd / mpls label helpers
//@ bound: ALL byte strings of length 0..=17 as one NLRI of this family, add-path on/off, reach/withdraw; unwind 24
//@ desc: total (an NLRI or a NOTIFICATION, no panic / out-of-bounds), the cursor never passes the end, an accepted NLRI consumed at least one byte
#[kani::proof]
#[kani::unwind(24)]
#[kani::stub(alloc::fmt::format, stub_format_bgp)]
fn c03_nlri_vpnv4() {
    let (ok, _used) = nlri_one::<17>(Family::IPV4_VPN);
    kani::cover!(ok);
    kani::cover!(!ok);
}

//@ id=C03 tier=off cap=3600 mem=40
//@ fn: bgp::PeerCodec::decode_nlri, bgp::Nlri::decode, labeled::LabeledV4Nlri::decode, mpls label helpers
//@ bound: ALL byte strings of length 0..=10 as one NLRI of this family, add-path on/off, reach/withdraw; unwind 24
//@ desc: total (an NLRI or a NOTIFICATION, no panic / out-of-bounds), the cursor never passes the end, an accepted NLRI consumed at least one byte
#[kani::proof]
#[kani::unwind(24)]
#[kani::stub(alloc::fmt::format, stub_format_bgp)]
fn c03_nlri_labeled_v4() {
    let (ok, _used) = nlri_one::<10>(Family::IPV4_MPLS);
    kani::cover!(ok);
    kani::cover!(!ok);
}

//@ id=C03 tier=off cap=3600 mem=40
//@ fn: bgp::PeerCodec::decode_nlri, bgp::Nlri::decode, rtc::RtcNlri::decode
//@ bound: ALL byte strings of length 0..=14 as one NLRI of this family, add-path on/off, reach/withdraw; unwind 24
//@ desc: total (an NLRI or a NOTIFICATION, no panic / out-of-bounds), the cursor never passes the end, an accepted NLRI consumed at least one byte
#[kani::proof]
#[kani::unwind(24)]
#[kani::stub(alloc::fmt::format, stub_format_bgp)]
fn c03_nlri_rtc() {
    let (ok, _used) = nlri_one::<14>(Family::RTC);
    kani::cover!(ok);
    kani::cover!(!ok);
}


// ---------------------------------------------------------------------------------
// C05 end to end on a pinned layout: parse_message + validate_message
// ---------------------------------------------------------------------------------

//@ id=C05 tier=quick cap=1500 mem=24
//@ fn: bgp::PeerCodec::parse_message (UPDATE attribute walk incl. the unknown-attribute branch)
//@ bound: pinned UPDATE: ORIGIN, empty AS_PATH, NEXT_HOP, one attribute X with an UNRECOGNISED code (200), flags 0x40 (well-known, transitive) and 2 symbolic value bytes, one IPv4 /24 NLRI; eBGP or iBGP; unwind 40
//@ desc: an unrecognised WELL-KNOWN attribute (Optional bit clear, whatever the Transitive bit) is recorded as an attribute error with flags that c05_classify_* turns into treat-as-withdraw and is never stored; an unrecognised optional transitive one is stored as opaque, an optional non-transitive one is dropped; never a session reset
#[kani::proof]
#[kani::unwind(40)]
#[kani::stub(alloc::fmt::format, stub_format_bgp)]
fn c05_parse_unknown_attr() {
    // the flags byte is concrete per call (a symbolic one makes the attribute walk fork on
    // every flag test and ran out of 24 GB)
    parse_unknown_attr(0x40);
}

//@ id=C05 tier=thorough cap=2400 mem=24
//@ fn: bgp::PeerCodec::parse_message (UPDATE attribute walk incl. the unknown-attribute branch)
//@ bound: as c05_parse_unknown_attr with flags 0x00 (well-known, non-transitive), 0xC0 (optional transitive), 0x80 (optional non-transitive); unwind 40
//@ desc: as c05_parse_unknown_attr
#[kani::proof]
#[kani::unwind(40)]
#[kani::stub(alloc::fmt::format, stub_format_bgp)]
fn c05_parse_unknown_attr_other_flags() {
    let k: u8 = kani::any();
    kani::assume(k < 3);
    match k {
        0 => parse_unknown_attr(0x00),
        1 => parse_unknown_attr(0xc0),
        _ => parse_unknown_attr(0x80),
    }
}

fn parse_unknown_attr(flags: u8) {
    let v: [u8; 2] = kani::any();
    let attrs: [u8; 19] = [
        0x40, 1, 1, 0, // ORIGIN IGP
        0x40, 2, 0, // AS_PATH empty
        0x40, 3, 4, 192, 0, 2, 1, // NEXT_HOP
        flags, 200, 2, v[0], v[1], // X
    ];
    let mut buf = [0xffu8; 46];
    buf[16] = 0;
    buf[17] = 46;
    buf[18] = 2;
    buf[19] = 0;
    buf[20] = 0;
    buf[21] = 0;
    buf[22] = 19;
    let mut i = 0;
    while i < 19 {
        buf[23 + i] = attrs[i];
        i += 1;
    }
    buf[42] = 24;
    buf[43] = 10;
    buf[44] = 1;
    buf[45] = 2;
    let mut codec = PeerCodec::new();
    codec.set_family(Family::IPV4, FamilyState::default());
    let parsed = codec.parse_message(&buf[..]);
    // never a session reset for an unrecognised attribute
    assert!(parsed.is_ok());
    let optional = flags & Attribute::FLAG_OPTIONAL != 0;
    let transitive = flags & Attribute::FLAG_TRANSITIVE != 0;
    if let Ok(ParsedMessage::Update(ParsedUpdate::Routes {
        reach,
        attrs: got,
        error_attrs,
        ..
    })) = &parsed
    {
        let r = reach.as_ref().unwrap();
        assert!(r.entries.len() == 1 && is_v4(&r.entries[0], 0x0a010200, 24));
        assert!(r.nexthop.is_some());
        let mut has_x = false;
        let mut j = 0;
        while j < got.len() {
            if got[j].code() == 200 {
                has_x = true;
                assert!(got[j].is_opaque() && got[j].flags() == flags);
            }
            j += 1;
        }
        let mut err_x = false;
        let mut j = 0;
        while j < error_attrs.len() {
            if error_attrs[j].attr_code == 200 {
                err_x = true;
                // recorded with flags that classify as treat-as-withdraw (c05_classify_*)
                assert!(error_attrs[j].attr_flags & Attribute::FLAG_OPTIONAL == 0);
            }
            j += 1;
        }
        // unrecognised well-known => error record (treat-as-withdraw downstream), never stored;
        // optional transitive => stored opaque; optional non-transitive => dropped silently
        assert!(err_x == !optional);
        assert!(has_x == (optional && transitive));
        assert!(error_attrs.len() == if optional { 0 } else { 1 });
    } else {
        assert!(false);
    }
    kani::cover!(optional || !transitive || true);
    core::mem::forget(parsed);
    core::mem::forget(codec);
}

//@ id=C16 tier=quick cap=1500 mem=24
//@ fn: bgp::PeerCodec::negotiate (extended next hop, RFC 8950)
//@ bound: both sides advertise MP(v4) and MP(vpnv4) and an ExtendedNexthop capability with ONE entry each whose family is symbolic (v4 or vpnv4) and whose next-hop AFI is symbolic (IPv4 / IPv6); unwind 6
//@ desc: extended next hop is in force iff some negotiated family has it advertised (with an IPv6 next-hop AFI) by BOTH sides; mirror image on both ends
#[kani::proof]
#[kani::unwind(6)]
fn c16_negotiate_ext_nexthop() {
    let fam = |b: bool| if b { Family::IPV4 } else { Family::IPV4_VPN };
    let afi = |b: bool| if b { Family::AFI_IP6 } else { Family::AFI_IP };
    let (lf, la, rf, ra): (bool, bool, bool, bool) = (kani::any(), kani::any(), kani::any(), kani::any());
    let l = fixed_vec(
        [
            Capability::MultiProtocol(Family::IPV4),
            Capability::MultiProtocol(Family::IPV4_VPN),
            Capability::ExtendedNexthop(fixed_vec([(fam(lf), afi(la))], 1)),
        ],
        3,
    );
    let r = fixed_vec(
        [
            Capability::MultiProtocol(Family::IPV4),
            Capability::MultiProtocol(Family::IPV4_VPN),
            Capability::ExtendedNexthop(fixed_vec([(fam(rf), afi(ra))], 1)),
        ],
        3,
    );
    let a = PeerCodec::negotiate(&l, &r);
    let b = PeerCodec::negotiate(&r, &l);
    let want = la && ra && lf == rf;
    assert!(a.extended_nexthop == want);
    assert!(b.extended_nexthop == want);
    assert!(a.has_family(Family::IPV4) && a.has_family(Family::IPV4_VPN));
    kani::cover!(want);
    kani::cover!(la && ra && lf != rf);
    core::mem::forget((a, b, l, r));
}

fn decode_as_path2<const N: usize>() {
    let bytes: [u8; N] = kani::any();
    let mut rd: &[u8] = &bytes[..];
    let r = Attribute::decode(Attribute::AS_PATH, Attribute::FLAG_TRANSITIVE, &mut rd, N as u16, true);
    // reference: well-formed 2-octet AS_PATH
    let mut pos = 0usize;
    let mut ok = true;
    let mut guard = 0;
    while pos < N && ok && guard <= N {
        guard += 1;
        if pos + 2 > N {
            ok = false;
        } else {
            let t = bytes[pos];
            let c = bytes[pos + 1] as usize;
            if t < 1 || t > 4 || pos + 2 + 2 * c > N {
                ok = false;
            } else {
                pos += 2 + 2 * c;
            }
        }
    }
    match r {
        Ok(a) => {
            assert!(ok);
            assert!(as_path_well_formed(a.binary().unwrap()));
            let _ = a.as_path_length();
            core::mem::forget(a);
        }
        Err(()) => assert!(!ok),
    }
}

//@ id=C05 tier=off cap=3600 mem=40
//@ fn: bgp::Attribute::decode (AS_PATH arm, 2-octet-AS session: validation + up-conversion to the canonical 4-octet form)
//@ bound: ALL 5-byte AS_PATH values on a session without the 4-octet-AS capability; unwind 8
//@ desc: total (no panic / out-of-bounds on a stray trailing octet); accepts exactly the well-formed 2-octet paths and stores a well-formed canonical path
#[kani::proof]
#[kani::unwind(8)]
fn c05_attr_decode_aspath2_5() {
    decode_as_path2::<5>();
}
