"""Scratch overlay of /repo for Kani runs (DESIGN.md §2.1/§2.2).

make_overlay(dst, stubs=True) copies /repo's current working tree (minus target/ and
.git/) into dst, injects the harness modules, and — when stubs is true — applies the
environment stubs S1 (fnv shim via [patch]), S2 (Entry path rewrite), S3 (io::Error
message elision) and S8 (family-universe Drop guards).  Every rewrite is checked to have
matched; OverlayError means "infrastructure problem" (exit 2), never a violation.
"""
import os
import re
import shutil
import subprocess

REPO = os.environ.get("VERIF_REPO", "/repo")
VERIF = os.path.dirname(os.path.dirname(os.path.abspath(__file__)))
HARNESS_DIR = os.path.join(VERIF, "kani", "harness")
SHIM_FNV = os.path.join(VERIF, "kani", "shim", "fnv")


class OverlayError(Exception):
    pass


# file (relative to repo root) -> harness modules appended to it.  A child module can use
# private items of its parent module.
INJECT = {
    "packet/src/bgp.rs": ["p_bgp"],
    "packet/src/rpki.rs": ["p_rpki"],
    "packet/src/bfd.rs": ["p_bfd"],
    "packet/src/rd.rs": ["p_rd"],
    "packet/src/mpls.rs": ["p_mpls"],
    "packet/src/rtc.rs": ["p_rtc"],
    "packet/src/labeled.rs": ["p_labeled"],
    "packet/src/bmp.rs": ["p_bmp"],
    "packet/src/mrt.rs": ["p_mrt"],
    "table/src/lib.rs": ["t_lib"],
    "table/src/policy.rs": ["t_policy"],
    "daemon/src/fsm.rs": ["d_fsm"],
    "daemon/src/gr.rs": ["d_gr"],
    "daemon/src/peer_tx.rs": ["d_peer_tx"],
    "daemon/src/event/mod.rs": ["d_event"],
    "daemon/src/event/export.rs": ["d_export"],
    "daemon/src/convert.rs": ["d_convert"],
}

S8_GUARDS = """
// ---- verif stub S8: family-universe restriction (cfg(kani) only) ----
#[cfg(kani)]
mod verif_s8 {
    macro_rules! guard {
        ($($t:ty),*) => {$(
            impl Drop for $t { fn drop(&mut self) { kani::assume(false); } }
        )*};
    }
    guard!(
        crate::flowspec::FlowspecV4Nlri,
        crate::flowspec::FlowspecV6Nlri,
        crate::flowspec::FlowspecVpnV4Nlri,
        crate::flowspec::FlowspecVpnV6Nlri,
        crate::ls::BgpLsNlri,
        crate::evpn::EvpnNlri
    );
}
"""


def _rewrite_io_error_new(text):
    """io::Error::new(<kind>, <msg>) -> io::Error::from(<kind>) (S3)."""
    out = []
    i = 0
    n = 0
    pat = "io::Error::new("
    while True:
        j = text.find(pat, i)
        if j < 0:
            out.append(text[i:])
            break
        k = j + len(pat)
        depth = 1
        first_comma = None
        p = k
        in_str = False
        while p < len(text) and depth > 0:
            c = text[p]
            if in_str:
                if c == "\\":
                    p += 1
                elif c == '"':
                    in_str = False
            else:
                if c == '"':
                    in_str = True
                elif c in "([{":
                    depth += 1
                elif c in ")]}":
                    depth -= 1
                elif c == "," and depth == 1 and first_comma is None:
                    first_comma = p
            p += 1
        if depth != 0 or first_comma is None:
            raise OverlayError("S3: cannot parse io::Error::new call")
        kind = text[k:first_comma].strip()
        out.append(text[i:j])
        out.append("io::Error::from(%s)" % kind)
        i = p
        n += 1
    return "".join(out), n


def make_overlay(dst, stubs=True, harness=True, s8=True, s3=True):
    if os.path.exists(dst):
        shutil.rmtree(dst)
    os.makedirs(dst)
    r = subprocess.run(
        ["rsync", "-a", "--exclude", "/target", "--exclude", "/.git", REPO + "/", dst + "/"],
        capture_output=True, text=True)
    if r.returncode != 0:
        raise OverlayError("rsync failed: " + r.stderr)

    # offline cargo
    os.makedirs(os.path.join(dst, ".cargo"), exist_ok=True)
    with open(os.path.join(dst, ".cargo", "config.toml"), "a") as f:
        f.write("\n[net]\noffline = true\n")

    info = {"s2_sites": 0, "s3_sites": 0, "injected": []}

    if harness:
        for rel, mods in INJECT.items():
            path = os.path.join(dst, rel)
            if not os.path.exists(path):
                raise OverlayError("inject target missing: " + rel)
            with open(path, "a") as f:
                for m in mods:
                    hp = os.path.join(HARNESS_DIR, m + ".rs")
                    if not os.path.exists(hp):
                        continue
                    f.write('\n#[cfg(kani)]\n#[path = "%s"]\nmod verif_%s;\n' % (hp, m))
                    info["injected"].append(m)
        # shared helper module for each crate (kani-only)
        for crate_root, helper in (("packet/src/lib.rs", "p_common"),
                                   ("table/src/lib.rs", "t_common"),
                                   ("daemon/src/main.rs", "d_common")):
            hp = os.path.join(HARNESS_DIR, helper + ".rs")
            if os.path.exists(hp):
                with open(os.path.join(dst, crate_root), "a") as f:
                    f.write('\n#[cfg(kani)]\n#[path = "%s"]\npub(crate) mod verif_%s;\n'
                            % (hp, helper))

    if stubs:
        # S1
        with open(os.path.join(dst, "Cargo.toml"), "a") as f:
            f.write('\n[patch.crates-io]\nfnv = { path = "%s" }\n' % SHIM_FNV)
        # S2
        total = 0
        for rel in ("daemon/src/gr.rs", "daemon/src/event/mod.rs"):
            path = os.path.join(dst, rel)
            s = open(path).read()
            s2, n = re.subn(r"std::collections::hash_map::Entry", "fnv::Entry", s)
            total += n
            open(path, "w").write(s2)
        if total == 0:
            raise OverlayError("S2: no hash_map::Entry site matched")
        info["s2_sites"] = total
        # S3
        if s3:
            total = 0
            pk = os.path.join(dst, "packet", "src")
            for fn in sorted(os.listdir(pk)):
                if not fn.endswith(".rs"):
                    continue
                path = os.path.join(pk, fn)
                s = open(path).read()
                s2, n = _rewrite_io_error_new(s)
                if n:
                    open(path, "w").write(s2)
                    total += n
            if total == 0:
                raise OverlayError("S3: no io::Error::new site matched")
            info["s3_sites"] = total
        # S8
        if s8:
            with open(os.path.join(dst, "packet/src/lib.rs"), "a") as f:
                f.write(S8_GUARDS)
    return info


if __name__ == "__main__":
    import sys
    print(make_overlay(sys.argv[1], stubs=(len(sys.argv) < 3 or sys.argv[2] != "nostubs")))
