// Kani harnesses for packet/src/mpls.rs (label / label stack: building block of the labeled-unicast, VPN and EVPN NLRI codecs).
#![allow(unused_imports, dead_code, clippy::all)]

use super::*;

struct LblBuf {
    buf: [u8; 16],
    len: usize,
}

unsafe impl BufMut for LblBuf {
    fn remaining_mut(&self) -> usize {
        16 - self.len
    }
    unsafe fn advance_mut(&mut self, cnt: usize) {
        assert!(self.len + cnt <= 16);
        self.len += cnt;
    }
    fn chunk_mut(&mut self) -> &mut bytes::buf::UninitSlice {
        let l = self.len;
        bytes::buf::UninitSlice::new(&mut self.buf[l..])
    }
    fn put_u8(&mut self, v: u8) {
        assert!(self.len < 16);
        self.buf[self.len] = v;
        self.len += 1;
    }
    fn put_slice(&mut self, src: &[u8]) {
        assert!(self.len + src.len() <= 16);
        let mut i = 0;
        while i < src.len() {
            self.buf[self.len + i] = src[i];
            i += 1;
        }
        self.len += src.len();
    }
}

fn label_of(b: &[u8; 10], i: usize) -> u32 {
    ((b[3 * i] as u32) << 12) | ((b[3 * i + 1] as u32) << 4) | ((b[3 * i + 2] as u32) >> 4)
}

//@ id=C03 tier=quick cap=900
//@ fn: mpls::MplsLabelStack::decode, mpls::MplsLabelStack::encode, mpls::MplsLabel::decode, mpls::MplsLabel::encode, mpls::MplsLabel::new
//@ bound: ALL byte strings of length 0..=10 (stacks of up to 3 labels); unwind 12
//@ desc: label-stack decode is total and makes progress: it consumes 3 bytes per label up to and including the first one with the bottom-of-stack bit, fails iff the input ends before such a label; each value is the 20 leading bits; re-encoding yields the same labels, BoS only on the last, traffic-class bits zero, and decodes to the same stack; new() masks to 20 bits
#[kani::proof]
#[kani::unwind(12)]
fn c03_label_stack_total_roundtrip() {
    let bytes: [u8; 10] = kani::any();
    let len: usize = kani::any();
    kani::assume(len <= 10);
    // reference: index of the first complete label with BoS set
    let avail = len / 3;
    let mut want: usize = usize::MAX;
    let mut i = 0;
    while i < 3 {
        if want == usize::MAX && i < avail && (bytes[3 * i + 2] & 1) != 0 {
            want = i;
        }
        i += 1;
    }
    let mut c = std::io::Cursor::new(&bytes[..len]);
    let r = MplsLabelStack::decode(&mut c);
    match r {
        Ok(st) => {
            assert!(want != usize::MAX);
            let n = st.labels().len();
            assert!(n == want + 1);
            assert!(c.position() as usize == 3 * n);
            assert!(st.encoded_len() == 3 * n);
            let mut out = LblBuf { buf: [0u8; 16], len: 0 };
            st.encode(&mut out);
            assert!(out.len == 3 * n);
            let mut k = 0;
            while k < 3 {
                if k < n {
                    let v = st.labels()[k].value();
                    assert!(v == label_of(&bytes, k));
                    assert!(v <= 0x000F_FFFF);
                    // same label bits, TC = 0, BoS iff last
                    assert!(out.buf[3 * k] == bytes[3 * k]);
                    assert!(out.buf[3 * k + 1] == bytes[3 * k + 1]);
                    assert!(out.buf[3 * k + 2] == (bytes[3 * k + 2] & 0xf0) | ((k == n - 1) as u8));
                    assert!(MplsLabel::new(v).value() == v);
                }
                k += 1;
            }
            let mut c2 = std::io::Cursor::new(&out.buf[..out.len]);
            let again = MplsLabelStack::decode(&mut c2);
            assert!(again.is_ok());
            if let Ok(st2) = again {
                assert!(st2.labels().len() == n);
                let mut k = 0;
                while k < 3 {
                    if k < n {
                        assert!(st2.labels()[k] == st.labels()[k]);
                    }
                    k += 1;
                }
                core::mem::forget(st2);
            }
            kani::cover!(n == 1);
            kani::cover!(n == 3);
            core::mem::forget(st);
        }
        Err(_) => {
            assert!(want == usize::MAX);
            kani::cover!(len == 9);
        }
    }
    let v: u32 = kani::any();
    assert!(MplsLabel::new(v).value() == (v & 0x000F_FFFF));
}
