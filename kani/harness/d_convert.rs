// Kani harnesses for daemon/src/convert.rs (C17: API conversions).
#![allow(unused_imports, dead_code, clippy::all)]

use super::*;

fn fixed_vec<T, const N: usize>(items: [T; N], len: usize) -> Vec<T> {
    assert!(len <= N);
    let p = Box::into_raw(Box::new(items)) as *mut T;
    unsafe { Vec::from_raw_parts(p, len, N) }
}

/// S4: message text is not the subject of the property
fn stub_format(_args: core::fmt::Arguments<'_>) -> String {
    String::new()
}

/// structural invariant of a canonical AS_PATH value (the one the wire decoder enforces)
fn as_path_well_formed(b: &[u8]) -> bool {
    let mut pos = 0usize;
    let mut guard = 0usize;
    while pos < b.len() {
        if guard > b.len() {
            return false;
        }
        guard += 1;
        if pos + 2 > b.len() {
            return false;
        }
        let t = b[pos];
        if t < 1 || t > 4 {
            return false;
        }
        pos += 2 + 4 * b[pos + 1] as usize;
        if pos > b.len() {
            return false;
        }
    }
    true
}

//@ id=C17 tier=off cap=900
//@ fn: convert::attr_from_api (Origin, MultiExitDisc, LocalPref arms), convert::attr_to_api
//@ bound: ANY u32 field value (incl. out-of-range ORIGIN codes); unwind 4
//@ desc: accepted numeric attributes satisfy the wire invariants (ORIGIN <= 2) and convert back to the same API message; out-of-range input is an error, never a stored value
#[kani::proof]
#[kani::unwind(4)]
#[kani::stub(alloc::fmt::format, stub_format)]
fn c17_from_api_numeric() {
    let v: u32 = kani::any();
    let k: u8 = kani::any();
    kani::assume(k < 3);
    let a = api::Attribute {
        attr: Some(match k {
            0 => api::attribute::Attr::Origin(api::OriginAttribute { origin: v }),
            1 => api::attribute::Attr::MultiExitDisc(api::MultiExitDiscAttribute { med: v }),
            _ => api::attribute::Attr::LocalPref(api::LocalPrefAttribute { local_pref: v }),
        }),
    };
    let r = attr_from_api(a);
    match r {
        Ok(attr) => {
            assert!(attr.value() == Some(v));
            if k == 0 {
                assert!(v <= 2); // same invariant as Attribute::decode
            }
            // shown back unchanged
            let back = attr_to_api(&attr);
            match back.attr {
                Some(api::attribute::Attr::Origin(o)) => assert!(k == 0 && o.origin == v),
                Some(api::attribute::Attr::MultiExitDisc(m)) => assert!(k == 1 && m.med == v),
                Some(api::attribute::Attr::LocalPref(l)) => assert!(k == 2 && l.local_pref == v),
                _ => assert!(false),
            }
            kani::cover!(k == 0);
            kani::cover!(k == 2);
        }
        Err(_) => {
            // only an out-of-range ORIGIN may be refused
            assert!(k == 0 && v > 2);
        }
    }
}

fn as_path_from_api(n0: usize, n1: usize) {
    let t0: i32 = kani::any();
    let t1: i32 = kani::any();
    let nums0: [u32; 2] = kani::any();
    let nums1: [u32; 2] = kani::any();
    let seg0 = api::AsSegment {
        r#type: t0,
        numbers: fixed_vec(nums0, n0),
    };
    let seg1 = api::AsSegment {
        r#type: t1,
        numbers: fixed_vec(nums1, n1),
    };
    let a = api::Attribute {
        attr: Some(api::attribute::Attr::AsPath(api::AsPathAttribute {
            segments: fixed_vec([seg0, seg1], 2),
        })),
    };
    let r = attr_from_api(a);
    let types_ok = t0 >= 1 && t0 <= 4 && t1 >= 1 && t1 <= 4;
    match r {
        Ok(attr) => {
            // accepted => as well-formed as anything the wire decoder lets through ...
            assert!(types_ok);
            let b = attr.binary().unwrap();
            assert!(as_path_well_formed(b));
            assert!(b.len() == 4 + 4 * (n0 + n1));
            // ... so best-path selection cannot crash on it
            let hops = attr.as_path_length();
            assert!(hops <= n0 + n1 + 2);
            kani::cover!(hops == n0 + n1);
            core::mem::forget(attr);
        }
        Err(_) => assert!(!types_ok),
    }
}

//@ id=C17 tier=off cap=1200 mem=24
//@ fn: convert::attr_from_api (AsPath arm), bgp::Attribute::as_path_length
//@ bound: API AS_PATH with 2 segments of 2 and 1 numbers, segment type fields ANY i32 (incl. 0, 5, negative, > 255), numbers symbolic; unwind 8
//@ desc: an accepted AS_PATH has only segment types 1..=4 and consistent lengths (the wire decoder's invariant), so hop counting cannot hit its unreachable!(); anything else is refused
#[kani::proof]
#[kani::unwind(8)]
#[kani::stub(alloc::fmt::format, stub_format)]
fn c17_from_api_as_path_types() {
    as_path_from_api(2, 1);
}

//@ id=C17 tier=off cap=1200 mem=24
//@ fn: convert::attr_from_api (Unknown arm)
//@ bound: UnknownAttribute with ANY type and flags and a 2-byte symbolic value; unwind 6
//@ desc: raw bytes can never be stored under the code of ORIGIN / MED / LOCAL_PREF / ORIGINATOR_ID (their consumers call value().unwrap()) nor as an unvalidated AS_PATH; an unrecognised type is kept as an opaque attribute with its flags, so that what attr_to_api shows converts back
#[kani::proof]
#[kani::unwind(6)]
#[kani::stub(alloc::fmt::format, stub_format)]
fn c17_from_api_unknown() {
    let ty: u32 = kani::any();
    let flags: u32 = kani::any();
    kani::assume(ty < 256 && flags < 256);
    let val: [u8; 2] = kani::any();
    let a = api::Attribute {
        attr: Some(api::attribute::Attr::Unknown(api::UnknownAttribute {
            flags,
            r#type: ty,
            value: fixed_vec(val, 2),
        })),
    };
    let r = attr_from_api(a);
    let code = ty as u8;
    let value_typed = matches!(
        code,
        Attribute::ORIGIN | Attribute::MULTI_EXIT_DESC | Attribute::LOCAL_PREF | Attribute::ORIGINATOR_ID
    );
    match r {
        Ok(attr) => {
            assert!(attr.code() == code);
            assert!(!value_typed);
            assert!(code != Attribute::AS_PATH);
            let b = attr.binary().unwrap();
            assert!(b.len() == 2 && b[0] == val[0] && b[1] == val[1]);
            if Attribute::canonical_flags(code).is_none() {
                // unrecognised type: opaque, flags preserved => round trip through attr_to_api
                assert!(attr.is_opaque() && attr.flags() == flags as u8);
            }
            kani::cover!(attr.is_opaque());
            kani::cover!(!attr.is_opaque());
            core::mem::forget(attr);
        }
        Err(_) => {
            // only types that have a typed API form are refused
            assert!(Attribute::canonical_flags(code).is_some());
        }
    }
}

//@ id=C17 tier=off cap=900 expect=fail
//@ fn: convert::attr_from_api
//@ bound: as c17_from_api_numeric
//@ desc: vacuity twin - claims every ORIGIN is refused; must be refuted
#[kani::proof]
#[kani::unwind(4)]
#[kani::stub(alloc::fmt::format, stub_format)]
fn c17_twin_must_fail() {
    let a = api::Attribute {
        attr: Some(api::attribute::Attr::Origin(api::OriginAttribute { origin: kani::any() })),
    };
    assert!(attr_from_api(a).is_err());
}

//@ id=C17 tier=off cap=1200
//@ fn: convert::attr_from_api (Origin arm)
//@ bound: ANY u32 origin; unwind 4
//@ desc: probe with a single concrete API variant
#[kani::proof]
#[kani::unwind(4)]
#[kani::stub(alloc::fmt::format, stub_format)]
fn c17_probe_origin_only() {
    let v: u32 = kani::any();
    let a = api::Attribute {
        attr: Some(api::attribute::Attr::Origin(api::OriginAttribute { origin: v })),
    };
    let r = attr_from_api(a);
    if let Ok(attr) = &r {
        assert!(attr.value() == Some(v));
        assert!(v <= 2);
    }
    core::mem::forget(r);
}
