// Kani harnesses for packet/src/labeled.rs (labeled-unicast NLRI, RFC 8277) - the family decoder itself, below the Nlri enum wrapper.
#![allow(unused_imports, dead_code, clippy::all)]

use super::*;

//@ id=C03 tier=quick cap=900
//@ fn: labeled::LabeledV4Nlri::decode, mpls::MplsLabelStack::decode
//@ bound: ALL byte strings of length 0..=14 (stacks of up to 4 labels before the buffer ends), reach and withdraw form, the caller-supplied remaining length = buffer length; unwind 16
//@ desc: labeled IPv4 NLRI decode is total, never reads past the buffer, and an accepted NLRI is self-consistent with its length octet: bits == 24 * labels + prefix length, prefix length <= 32, consumed == 1 + 3 * labels + ceil(prefix length / 8) >= 4 bytes; the withdraw form ignores the 3-octet compatibility field
#[kani::proof]
#[kani::unwind(16)]
fn c03_labeled_v4_decode_total() {
    let bytes: [u8; 14] = kani::any();
    let len: usize = kani::any();
    kani::assume(len <= 14);
    let is_reach: bool = kani::any();
    let mut c = std::io::Cursor::new(&bytes[..len]);
    let r = LabeledV4Nlri::decode(&mut c, len, is_reach);
    assert!(c.position() as usize <= len);
    match r {
        Ok(n) => {
            let nl = n.labels.labels().len();
            assert!(nl >= 1 && nl <= 4);
            if !is_reach {
                assert!(nl == 1);
                assert!(n.labels.labels()[0].value() == 0);
            }
            let pb = n.prefix.mask as usize;
            assert!(pb <= 32);
            assert!(bytes[0] as usize == 24 * nl + pb);
            let consumed = c.position() as usize;
            assert!(consumed == 1 + 3 * nl + (pb + 7) / 8);
            assert!(consumed >= 4);
            let o = n.prefix.addr.octets();
            let base = 1 + 3 * nl;
            let mut i = 0;
            while i < 4 {
                if i < (pb + 7) / 8 {
                    assert!(o[i] == bytes[base + i]);
                } else {
                    assert!(o[i] == 0);
                }
                i += 1;
            }
            kani::cover!(is_reach && nl == 2 && pb == 24);
            kani::cover!(!is_reach && pb == 32);
            core::mem::forget(n);
        }
        Err(_) => {
            kani::cover!(len == 14);
        }
    }
}
