// Kani harnesses for table/src/policy.rs (C14).
#![allow(unused_imports, dead_code, clippy::all)]

use super::*;
// (Attribute is already imported by the parent module)

/// AS_PATH attribute with a CONCRETE segment skeleton (counts) and symbolic segment types /
/// AS numbers.  Returns the attribute together with the ASNs and types for the oracle.
/// `counts` has at most 3 segments of at most 2 ASNs.
fn skeleton(counts: &[u8]) -> (Attribute, [[u32; 2]; 3], [u8; 3]) {
    let mut asns = [[0u32; 2]; 3];
    let mut types = [0u8; 3];
    let mut total = 0usize;
    let mut i = 0;
    while i < counts.len() {
        total += 2 + 4 * counts[i] as usize;
        i += 1;
    }
    let mut bin: Vec<u8> = Vec::with_capacity(total);
    let mut i = 0;
    while i < counts.len() {
        let t: u8 = kani::any();
        kani::assume(t >= 1 && t <= 4);
        types[i] = t;
        bin.push(t);
        bin.push(counts[i]);
        let mut j = 0;
        while j < counts[i] as usize {
            let a: u32 = kani::any();
            asns[i][j] = a;
            let b = a.to_be_bytes();
            bin.push(b[0]);
            bin.push(b[1]);
            bin.push(b[2]);
            bin.push(b[3]);
            j += 1;
        }
        i += 1;
    }
    (Attribute::new_with_bin(Attribute::AS_PATH, bin).unwrap(), asns, types)
}

fn in_range(kind: u8, a: u32, lo: u32, hi: u32) -> bool {
    if kind < 4 { a == lo } else { a >= lo && a <= hi }
}

/// all 8 match kinds on one skeleton, against list semantics; never panics
fn aspath_case(counts: &[u8]) -> (bool, u8) {
    let (attr, asns, _types) = skeleton(counts);
    let kind: u8 = kani::any();
    kani::assume(kind < 8);
    let lo: u32 = kani::any();
    let hi: u32 = kani::any();
    let m = match kind {
        0 => SingleAsPathMatch::Include(lo),
        1 => SingleAsPathMatch::LeftMost(lo),
        2 => SingleAsPathMatch::Origin(lo),
        3 => SingleAsPathMatch::Only(lo),
        4 => SingleAsPathMatch::RangeInclude(lo, hi),
        5 => SingleAsPathMatch::RangeLeftMost(lo, hi),
        6 => SingleAsPathMatch::RangeOrigin(lo, hi),
        _ => SingleAsPathMatch::RangeOnly(lo, hi),
    };
    let got = m.is_match(&attr);
    let nseg = counts.len();
    let want = match kind % 4 {
        0 => {
            let mut any = false;
            let mut i = 0;
            while i < nseg {
                let mut j = 0;
                while j < counts[i] as usize {
                    if in_range(kind, asns[i][j], lo, hi) {
                        any = true;
                    }
                    j += 1;
                }
                i += 1;
            }
            any
        }
        1 => nseg > 0 && counts[0] > 0 && in_range(kind, asns[0][0], lo, hi),
        2 => {
            nseg > 0
                && counts[nseg - 1] > 0
                && in_range(kind, asns[nseg - 1][counts[nseg - 1] as usize - 1], lo, hi)
        }
        _ => nseg == 1 && counts[0] == 1 && in_range(kind, asns[0][0], lo, hi),
    };
    assert!(got == want);
    core::mem::forget(attr);
    (got, kind)
}

//@ id=C14 tier=quick cap=600
//@ fn: policy::SingleAsPathMatch::is_match, bgp::AsPathIter::next
//@ bound: AS_PATH skeleton [2 ASNs, 1 ASN] (segment types symbolic in 1..=4, ASNs symbolic 32-bit) x all 8 match kinds with symbolic operands; unwind 8
//@ desc: AS-path matchers equal list semantics (include / leftmost / origin / only, single value and range) and never panic
#[kani::proof]
#[kani::unwind(8)]
fn c14_aspath_2_1() {
    let (got, kind) = aspath_case(&[2, 1]);
    kani::cover!(got && kind % 4 == 2);
    kani::cover!(got && kind == 4);
    kani::cover!(!got && kind == 0);
}

//@ id=C14 tier=quick cap=600
//@ fn: policy::SingleAsPathMatch::is_match, bgp::AsPathIter::next
//@ bound: AS_PATH skeleton [1 ASN, EMPTY segment (count 0)] - accepted by the wire decoder - x all 8 match kinds; unwind 8
//@ desc: an empty last segment must not crash the origin matchers
#[kani::proof]
#[kani::unwind(8)]
fn c14_aspath_1_0() {
    let (got, kind) = aspath_case(&[1, 0]);
    kani::cover!(!got && kind % 4 == 2);
    kani::cover!(got && kind == 1);
}

//@ id=C14 tier=quick cap=600
//@ fn: policy::SingleAsPathMatch::is_match
//@ bound: AS_PATH skeletons [] (empty path) and [0] (single empty segment) x all 8 match kinds; unwind 8
//@ desc: degenerate paths: no panic, nothing matches
#[kani::proof]
#[kani::unwind(8)]
fn c14_aspath_empty() {
    let empty: bool = kani::any();
    let (got, kind) = if empty {
        aspath_case(&[])
    } else {
        aspath_case(&[0])
    };
    assert!(!got);
    kani::cover!(empty && kind == 2);
    kani::cover!(!empty && kind == 6);
}

//@ id=C14 tier=thorough cap=900
//@ fn: policy::SingleAsPathMatch::is_match
//@ bound: AS_PATH skeletons [1], [0,1], [1,1,1], [2,0,1] x all 8 match kinds; unwind 8
//@ desc: further skeletons incl. an empty middle / first segment
#[kani::proof]
#[kani::unwind(8)]
fn c14_aspath_more() {
    let k: u8 = kani::any();
    kani::assume(k < 4);
    let (got, kind) = match k {
        0 => aspath_case(&[1]),
        1 => aspath_case(&[0, 1]),
        2 => aspath_case(&[1, 1, 1]),
        _ => aspath_case(&[2, 0, 1]),
    };
    kani::cover!(k == 0 && got && kind == 3);
    kani::cover!(k == 1 && !got && kind == 1);
    kani::cover!(k == 3 && got && kind == 2);
}

//@ id=C14 tier=thorough cap=600 expect=fail
//@ fn: policy::SingleAsPathMatch::is_match
//@ bound: as c14_aspath_2_1
//@ desc: vacuity twin - claims nothing ever matches; must be refuted
#[kani::proof]
#[kani::unwind(8)]
fn c14_aspath_twin_must_fail() {
    let (attr, _a, _t) = skeleton(&[1]);
    let m = SingleAsPathMatch::Include(kani::any());
    assert!(!m.is_match(&attr));
    core::mem::forget(attr);
}

// ---------------------------------------------------------------------------------
// C14: integer conditions
// ---------------------------------------------------------------------------------

fn fixed_vec<T, const N: usize>(items: [T; N], len: usize) -> Vec<T> {
    assert!(len <= N);
    let p = Box::into_raw(Box::new(items)) as *mut T;
    unsafe { Vec::from_raw_parts(p, len, N) }
}

fn any_cmp() -> (Comparison, u8) {
    let k: u8 = kani::any();
    kani::assume(k < 3);
    (
        match k {
            0 => Comparison::Eq,
            1 => Comparison::Ge,
            _ => Comparison::Le,
        },
        k,
    )
}

fn cmp_ok(k: u8, a: u32, b: u32) -> bool {
    match k {
        0 => a == b,
        1 => a >= b,
        _ => a <= b,
    }
}

//@ id=C14 tier=quick cap=1200 mem=24
//@ fn: policy::Condition::evalute (LocalPrefEq, MedEq, Origin arms)
//@ bound: route with attributes [ORIGIN, AS_PATH (2+1 ASNs, symbolic segment types), LOCAL_PREF, MED] with symbolic values or with NO attributes at all; source AS numbers symbolic; condition kind and operand symbolic; unwind 10
//@ desc: value conditions: equality on the attribute's value; an absent attribute never matches; no panic
#[kani::proof]
#[kani::unwind(10)]
fn c14_cond_int() {
    // the condition kind is concrete per call: with a symbolic kind CBMC also explores the
    // regex-based arms of evalute()
    let k: u8 = kani::any();
    kani::assume(k < 3);
    match k {
        0 => cond_int_case(0),
        1 => cond_int_case(1),
        _ => cond_int_case(2),
    }
}

//@ id=C14 tier=quick cap=1200 mem=24
//@ fn: policy::Condition::evalute (AsPathLength arm), bgp::Attribute::as_path_length
//@ bound: as c14_cond_int; comparison operator and operand symbolic; unwind 10
//@ desc: AS-path length condition: =, >=, <= over the hop count (SET = 1, CONFED = 0); an absent AS_PATH never matches
#[kani::proof]
#[kani::unwind(10)]
fn c14_cond_aspath_len() {
    cond_int_case(3);
}

//@ id=C14 tier=thorough cap=1200 mem=24
//@ fn: policy::Condition::evalute (RouteType arm)
//@ bound: source AS numbers symbolic; unwind 10
//@ desc: route type internal/external by comparing the source's remote and local AS
#[kani::proof]
#[kani::unwind(10)]
fn c14_cond_route_type() {
    if kani::any() {
        cond_int_case(4);
    } else {
        cond_int_case(5);
    }
}

fn cond_int_case(kind: u8) {
    let with_attrs: bool = kani::any();
    let origin: u8 = kani::any();
    kani::assume(origin <= 2);
    let lp: u32 = kani::any();
    let med: u32 = kani::any();
    let (asp, asns, types) = skeleton(&[2, 1]);
    let _ = asns;
    let hop = |t: u8, n: usize| match t {
        1 => 1usize,
        2 => n,
        _ => 0,
    };
    let hops = hop(types[0], 2) + hop(types[1], 1);
    let attrs: Arc<Vec<Attribute>> = Arc::new(if with_attrs {
        fixed_vec(
            [
                Attribute::new_with_value(Attribute::ORIGIN, origin as u32).unwrap(),
                asp,
                Attribute::new_with_value(Attribute::LOCAL_PREF, lp).unwrap(),
                Attribute::new_with_value(Attribute::MULTI_EXIT_DESC, med).unwrap(),
            ],
            4,
        )
    } else {
        core::mem::forget(asp);
        Vec::new()
    });
    let keep = attrs.clone();
    let remote_asn: u32 = kani::any();
    let local_asn: u32 = kani::any();
    let source = Arc::new(Source::new(
        IpAddr::V4(Ipv4Addr::new(10, 0, 0, 1)),
        IpAddr::V4(Ipv4Addr::new(10, 0, 0, 2)),
        remote_asn,
        local_asn,
        Ipv4Addr::new(1, 1, 1, 1),
        crate::PeerRole::Ebgp,
    ));
    let ksrc = source.clone();
    let net = packet::Nlri::V4(packet::bgp::Ipv4Net {
        addr: Ipv4Addr::new(10, 1, 0, 0),
        mask: 16,
    });
    let v: u32 = kani::any();
    let (cmp, ck) = any_cmp();
    let (cond, want) = match kind {
        0 => (Condition::LocalPrefEq(v), with_attrs && lp == v),
        1 => (Condition::MedEq(v), with_attrs && med == v),
        2 => {
            let o: u8 = kani::any();
            (Condition::Origin(o), with_attrs && origin == o)
        }
        3 => (
            Condition::AsPathLength(cmp, v),
            with_attrs && cmp_ok(ck, hops as u32, v),
        ),
        4 => (Condition::RouteType(RouteType::Internal), remote_asn == local_asn),
        _ => (Condition::RouteType(RouteType::External), remote_asn != local_asn),
    };
    let got = cond.evalute(
        &source,
        &net,
        &attrs,
        None,
        IpAddr::V4(Ipv4Addr::new(10, 0, 0, 1)),
        None,
    );
    assert!(got == want);
    kani::cover!(got);
    kani::cover!(!got && with_attrs);
    core::mem::forget((cond, attrs, keep, source, ksrc));
}

//@ id=C14 tier=off cap=3600 mem=40
//@ fn: policy::Condition::evalute (AsPath set arm: ANY / ALL / INVERT over the single-value patterns), SingleAsPathMatch::is_match
//@ bound: as-path set with one pattern Include(x) (symbolic x), match option symbolic; route with a one-AS AS_PATH or with NO AS_PATH attribute; unwind 10
//@ desc: the condition holds iff (some pattern matches) for ANY and iff (no pattern matches) for INVERT / ALL, and a route without AS_PATH matches no pattern (so INVERT holds for it)
#[kani::proof]
#[kani::unwind(10)]
fn c14_cond_aspath_set() {
    let with_path: bool = kani::any();
    let (asp, asns, _types) = skeleton(&[1]);
    let attrs: Arc<Vec<Attribute>> = Arc::new(if with_path {
        fixed_vec([asp], 1)
    } else {
        core::mem::forget(asp);
        Vec::new()
    });
    let keep = attrs.clone();
    let x: u32 = kani::any();
    let y: u32 = kani::any();
    let set = Arc::new(AsPathSet {
        single_sets: fixed_vec([SingleAsPathMatch::Include(x), SingleAsPathMatch::LeftMost(y)], 1),
        sets: Vec::new(),
    });
    let kset = set.clone();
    let o: u8 = kani::any();
    kani::assume(o < 3);
    let opt = match o {
        0 => MatchOption::Any,
        1 => MatchOption::All,
        _ => MatchOption::Invert,
    };
    let cond = Condition::AsPath(String::new(), opt, set);
    let source = Arc::new(Source::new(
        IpAddr::V4(Ipv4Addr::new(10, 0, 0, 1)),
        IpAddr::V4(Ipv4Addr::new(10, 0, 0, 2)),
        1,
        2,
        Ipv4Addr::new(1, 1, 1, 1),
        crate::PeerRole::Ebgp,
    ));
    let ksrc = source.clone();
    let net = packet::Nlri::V4(packet::bgp::Ipv4Net {
        addr: Ipv4Addr::new(10, 1, 0, 0),
        mask: 16,
    });
    let got = cond.evalute(&source, &net, &attrs, None, IpAddr::V4(Ipv4Addr::new(10, 0, 0, 1)), None);
    let _ = y;
    let found = with_path && asns[0][0] == x;
    let want = if o == 0 { found } else { !found };
    assert!(got == want);
    kani::cover!(got && o == 2 && !with_path);
    kani::cover!(got && o == 0);
    core::mem::forget((cond, attrs, keep, kset, source, ksrc));
}
