// Kani harnesses for packet/src/bfd.rs (C03 BFD control packets).
#![allow(unused_imports, dead_code, clippy::all)]

use super::*;

//@ id=C03 tier=quick cap=600
//@ fn: bfd::Message::decode, bfd::Message::encode
//@ bound: ALL byte strings of length 0..=32; unwind 34
//@ desc: BFD decode is total (message or error, no panic); accepts only 24-byte version-1 packets whose length field equals the datagram length; encode(decode(b)) decodes to the same message
#[kani::proof]
#[kani::unwind(34)]
fn c03_bfd_decode_total() {
    let bytes: [u8; 32] = kani::any();
    let len: usize = kani::any();
    kani::assume(len <= 32);
    let buf = &bytes[..len];
    let r = Message::decode(buf);
    match r {
        Ok(m) => {
            assert!(len >= MIN_LEN && bytes[3] as usize == len);
            assert!(bytes[0] >> 5 == VERSION);
            assert!(m.diagnostic.0 == bytes[0] & 0x1f);
            assert!(m.detect_multiplier == bytes[2]);
            assert!(m.my_discriminator == u32::from_be_bytes([bytes[4], bytes[5], bytes[6], bytes[7]]));
            let enc = m.encode();
            assert!(enc.is_ok());
            if let Ok(e) = enc {
                assert!(e.len() == MIN_LEN);
                let m2 = Message::decode(&e);
                assert!(m2 == Ok(m.clone()));
                core::mem::forget(e);
            }
            kani::cover!(len == 24);
            kani::cover!(len == 28);
        }
        Err(_) => {
            assert!(len < MIN_LEN || bytes[3] as usize != len || bytes[0] >> 5 != VERSION);
        }
    }
}

//@ id=C03 tier=thorough cap=600 expect=fail
//@ fn: bfd::Message::decode
//@ bound: as c03_bfd_decode_total
//@ desc: vacuity twin - claims nothing decodes; must be refuted
#[kani::proof]
#[kani::unwind(34)]
fn c03_bfd_twin_must_fail() {
    let bytes: [u8; 24] = kani::any();
    assert!(Message::decode(&bytes[..]).is_err());
}
