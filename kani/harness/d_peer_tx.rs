// Kani harnesses for daemon/src/peer_tx.rs (C01: pending-update coalescing).
#![allow(unused_imports, dead_code, clippy::all)]

use super::*;
use std::net::Ipv4Addr;

fn prefix(second: bool) -> packet::Nlri {
    packet::Nlri::V4(packet::bgp::Ipv4Net {
        addr: if second {
            Ipv4Addr::new(20, 0, 0, 0)
        } else {
            Ipv4Addr::new(10, 0, 0, 0)
        },
        mask: 24,
    })
}

fn is_prefix(n: &packet::Nlri, second: bool) -> bool {
    match n {
        packet::Nlri::V4(v) => {
            v.mask == 24 && v.addr == if second { Ipv4Addr::new(20, 0, 0, 0) } else { Ipv4Addr::new(10, 0, 0, 0) }
        }
        _ => false,
    }
}

#[derive(Clone, Copy, PartialEq, Eq)]
enum Op {
    None,
    Reach,
    Unreach,
}

/// bookkeeping of what the RIB guarantees its consumers: a destination id names one prefix at
/// a time and is re-bound to another prefix only after the old prefix lost its last path
/// (whose withdrawal was therefore queued); a prefix moves to another id only the same way.
struct Rib {
    owner: [Option<bool>; 2],   // id -> prefix (false = P1, true = P2)
    bound: [Option<u32>; 2],    // prefix -> id
    last: [Op; 2],              // prefix -> last queued operation
}

fn one_call(p: &mut PendingTx, rib: &mut Rib, attr: &Arc<Vec<packet::Attribute>>) {
    let id: u32 = kani::any();
    kani::assume(id < 2);
    let second: bool = kani::any();
    let n = second as usize;
    let reach: bool = kani::any();
    // discipline
    if let Some(m) = rib.owner[id as usize] {
        if m != second {
            kani::assume(rib.last[m as usize] == Op::Unreach);
            rib.bound[m as usize] = None;
        }
    }
    if let Some(j) = rib.bound[n] {
        if j != id {
            kani::assume(rib.last[n] == Op::Unreach);
            rib.owner[j as usize] = None;
        }
    }
    rib.owner[id as usize] = Some(second);
    rib.bound[n] = Some(id);
    if reach {
        rib.last[n] = Op::Reach;
        p.reach(
            id,
            prefix(second),
            0,
            Some(Nexthop::V4(Ipv4Addr::new(192, 0, 2, 1))),
            attr.clone(),
        );
    } else {
        rib.last[n] = Op::Unreach;
        p.unreach(id, prefix(second), 0);
    }
}

/// what a flush would put on the wire for prefix `second` (withdrawals precede announcements)
fn queued(p: &PendingTx, second: bool) -> (bool, bool) {
    let mut announced = false;
    for (_, (n, _, _)) in p.reach.iter() {
        if is_prefix(n, second) {
            announced = true;
        }
    }
    let mut withdrawn = false;
    for (_, n) in p.unreach.iter() {
        if is_prefix(n, second) {
            withdrawn = true;
        }
    }
    let mut i = 0;
    while i < p.displaced.len() {
        if is_prefix(&p.displaced[i].nlri, second) {
            withdrawn = true;
        }
        i += 1;
    }
    (announced, withdrawn)
}

fn pending_history(calls: usize) -> (bool, bool) {
    let attr: Arc<Vec<packet::Attribute>> = Arc::new(Vec::new());
    let keep = attr.clone();
    let mut p = PendingTx::new(false);
    let mut rib = Rib {
        owner: [None, None],
        bound: [None, None],
        last: [Op::None, Op::None],
    };
    let mut i = 0;
    while i < calls {
        one_call(&mut p, &mut rib, &attr);
        i += 1;
    }
    let mut rebound = false;
    let mut k = 0;
    while k < 2 {
        let second = k == 1;
        let (announced, withdrawn) = queued(&p, second);
        match rib.last[k] {
            // the neighbour must end up WITH the route: an announcement is queued
            Op::Reach => assert!(announced),
            // the neighbour must end up WITHOUT it: a withdrawal is queued and no announcement
            Op::Unreach => {
                assert!(withdrawn, "C01: a queued withdrawal was lost");
                assert!(!announced);
            }
            Op::None => assert!(!announced && !withdrawn),
        }
        if rib.last[k] == Op::Unreach && rib.bound[k].is_none() {
            rebound = true;
        }
        k += 1;
    }
    let both = rib.last[0] != Op::None && rib.last[1] != Op::None;
    core::mem::forget(p);
    core::mem::forget(keep);
    core::mem::forget(attr);
    (rebound, both)
}

//@ id=C01 tier=quick cap=1800 mem=30
//@ fn: peer_tx::PendingTx::reach, peer_tx::PendingTx::unreach
//@ bound: ALL histories of 2 calls over destination ids {0,1} x prefixes {P1,P2} x {reach,unreach} that respect the RIB's id discipline (an id is re-bound to another prefix only after the old prefix was withdrawn); non-add-path keys; unwind 6
//@ desc: after the calls, for each prefix the queue holds exactly its last operation: last=unreach => a withdrawal is still queued (in the map or the displaced list) and no announcement; last=reach => an announcement is queued. In particular a withdrawal survives re-use of its destination id.
//@ outside: drain_messages (grouping by attribute), add-path keys, >2 ids / prefixes, >3 calls; the async channel/flush interleaving
#[kani::proof]
#[kani::unwind(6)]
fn c01_pending_two_calls() {
    let (rebound, both) = pending_history(2);
    kani::cover!(rebound);
    kani::cover!(both);
}

//@ id=C01 tier=off cap=3600 mem=40
//@ fn: peer_tx::PendingTx::reach, peer_tx::PendingTx::unreach
//@ bound: as c01_pending_two_calls with ALL histories of 3 calls; unwind 6
//@ desc: as c01_pending_two_calls (covers unreach P1, reach P2 on the same id, unreach P2)
#[kani::proof]
#[kani::unwind(6)]
fn c01_pending_three_calls() {
    let (rebound, both) = pending_history(3);
    kani::cover!(rebound && both);
}

//@ id=C01 tier=thorough cap=1200 expect=fail
//@ fn: peer_tx::PendingTx::reach, peer_tx::PendingTx::unreach
//@ bound: as c01_pending_two_calls
//@ desc: vacuity twin - claims nothing is ever announced; must be refuted
#[kani::proof]
#[kani::unwind(6)]
fn c01_pending_twin_must_fail() {
    let attr: Arc<Vec<packet::Attribute>> = Arc::new(Vec::new());
    let keep = attr.clone();
    let mut p = PendingTx::new(false);
    let mut rib = Rib {
        owner: [None, None],
        bound: [None, None],
        last: [Op::None, Op::None],
    };
    one_call(&mut p, &mut rib, &attr);
    let (a0, _) = queued(&p, false);
    let (a1, _) = queued(&p, true);
    assert!(!a0 && !a1);
    core::mem::forget(p);
    core::mem::forget(keep);
    core::mem::forget(attr);
}

/// position of the first drained message that announces / withdraws the given prefix
fn first_pos(msgs: &Vec<bgp::Message>, second: bool, reach: bool) -> Option<usize> {
    let mut i = 0;
    while i < msgs.len() {
        match &msgs[i] {
            bgp::Message::Update(bgp::Update::Reach { entries, .. }) if reach => {
                let mut j = 0;
                while j < entries.len() {
                    if is_prefix(&entries[j].nlri, second) {
                        return Some(i);
                    }
                    j += 1;
                }
            }
            bgp::Message::Update(bgp::Update::Unreach { entries, .. }) if !reach => {
                let mut j = 0;
                while j < entries.len() {
                    if is_prefix(&entries[j].nlri, second) {
                        return Some(i);
                    }
                    j += 1;
                }
            }
            _ => {}
        }
        i += 1;
    }
    None
}

//@ id=C01 tier=off cap=3600 mem=40
//@ fn: peer_tx::PendingTx::buffer_messages, PendingTx::unreach, PendingTx::reach, PendingTx::drain_messages
//@ bound: initial dump buffered with one Reach(P1); then a symbolic choice of: withdraw P1 / announce P2 / nothing, before the first flush; one drain; unwind 6
//@ desc: wire order = history order: the buffered initial dump leaves first, then withdrawals, then announcements, so a route withdrawn before the first flush does not survive at the neighbour; the queue is empty afterwards; End-of-RIB comes last
#[kani::proof]
#[kani::unwind(6)]
fn c01_drain_order() {
    let attr: Arc<Vec<packet::Attribute>> = Arc::new(Vec::new());
    let keep = attr.clone();
    let mut p = PendingTx::new(false);
    let dump = bgp::Message::Update(bgp::Update::Reach {
        family: Family::IPV4,
        entries: {
            let b = Box::into_raw(Box::new([packet::PathNlri {
                path_id: 0,
                nlri: prefix(false),
            }])) as *mut packet::PathNlri;
            unsafe { Vec::from_raw_parts(b, 1, 1) }
        },
        nexthop: Some(Nexthop::V4(Ipv4Addr::new(192, 0, 2, 1))),
        attr: attr.clone(),
    });
    let b = Box::into_raw(Box::new([dump])) as *mut bgp::Message;
    p.buffer_messages(unsafe { Vec::from_raw_parts(b, 1, 1) });
    let k: u8 = kani::any();
    kani::assume(k < 3);
    match k {
        0 => p.unreach(7, prefix(false), 0),
        1 => p.reach(
            8,
            prefix(true),
            0,
            Some(Nexthop::V4(Ipv4Addr::new(192, 0, 2, 1))),
            attr.clone(),
        ),
        _ => {}
    }
    let eor: bool = kani::any();
    if eor {
        p.schedule_eor();
    }
    let msgs = p.drain_messages(Family::IPV4);
    assert!(p.is_empty());
    let dump_pos = first_pos(&msgs, false, true);
    assert!(dump_pos == Some(0));
    match k {
        0 => {
            // the withdrawal of P1 must come AFTER the dump that announces P1
            let w = first_pos(&msgs, false, false);
            assert!(w.is_some() && w.unwrap() > 0);
        }
        1 => {
            let a = first_pos(&msgs, true, true);
            assert!(a.is_some() && a.unwrap() > 0);
        }
        _ => {}
    }
    let n = msgs.len();
    assert!(n == 1 + (if k < 2 { 1 } else { 0 }) + (if eor { 1 } else { 0 }));
    if eor {
        assert!(matches!(&msgs[n - 1], bgp::Message::Update(bgp::Update::EndOfRib(_))));
    }
    kani::cover!(k == 0 && eor);
    kani::cover!(k == 1);
    core::mem::forget((msgs, p, keep, attr));
}

//@ id=C01 tier=quick cap=1200 mem=30
//@ fn: peer_tx::PendingTx::buffer_messages, PendingTx::unreach, PendingTx::drain_messages
//@ bound: one pre-built message buffered (initial dump stand-in), then one withdrawal queued under a symbolic destination id, End-of-RIB scheduled or not; one drain; unwind 6
//@ desc: wire order = history order: everything buffered by the initial dump leaves BEFORE withdrawals queued afterwards (otherwise a route withdrawn before the first flush would be re-announced by the dump); End-of-RIB is last; the queue is empty afterwards
#[kani::proof]
#[kani::unwind(6)]
fn c01_drain_buffered_first() {
    let mut p = PendingTx::new(false);
    let b = Box::into_raw(Box::new([bgp::Message::Keepalive])) as *mut bgp::Message;
    p.buffer_messages(unsafe { Vec::from_raw_parts(b, 1, 1) });
    let id: u32 = kani::any();
    p.unreach(id, prefix(false), 0);
    let eor: bool = kani::any();
    if eor {
        p.schedule_eor();
    }
    let msgs = p.drain_messages(Family::IPV4);
    assert!(p.is_empty());
    let n = msgs.len();
    assert!(n == if eor { 3 } else { 2 });
    assert!(matches!(&msgs[0], bgp::Message::Keepalive));
    match &msgs[1] {
        bgp::Message::Update(bgp::Update::Unreach { family, entries }) => {
            assert!(*family == Family::IPV4);
            assert!(entries.len() == 1 && is_prefix(&entries[0].nlri, false));
        }
        _ => assert!(false),
    }
    if eor {
        assert!(matches!(&msgs[2], bgp::Message::Update(bgp::Update::EndOfRib(_))));
    }
    kani::cover!(eor);
    kani::cover!(!eor);
    core::mem::forget((msgs, p));
}

//@ id=C01 tier=quick cap=1200 mem=30 deterministic=yes
//@ fn: peer_tx::PendingTx::buffer_messages, PendingTx::unreach, PendingTx::drain_messages
//@ bound: ONE concrete execution (no symbolic value): buffered message, withdrawal under id 7, End-of-RIB scheduled, one drain; unwind 6
//@ desc: concrete companion of c01_drain_buffered_first: same ordering assertion on one fixed input, so that a refutation can be re-run natively even when the trace of the symbolic harness is too large for kani-driver to turn into a playback test
#[kani::proof]
#[kani::unwind(6)]
fn c01_drain_buffered_first_fixed() {
    let mut p = PendingTx::new(false);
    let b = Box::into_raw(Box::new([bgp::Message::Keepalive])) as *mut bgp::Message;
    p.buffer_messages(unsafe { Vec::from_raw_parts(b, 1, 1) });
    p.unreach(7, prefix(false), 0);
    p.schedule_eor();
    let msgs = p.drain_messages(Family::IPV4);
    assert!(p.is_empty());
    assert!(msgs.len() == 3);
    assert!(matches!(&msgs[0], bgp::Message::Keepalive));
    assert!(matches!(&msgs[1], bgp::Message::Update(bgp::Update::Unreach { .. })));
    assert!(matches!(&msgs[2], bgp::Message::Update(bgp::Update::EndOfRib(_))));
    core::mem::forget((msgs, p));
}
