// Kani harnesses for table/src/lib.rs (C02 comparator / ECMP, C06 id allocator).
#![allow(unused_imports, dead_code, clippy::all)]

use super::*;
use packet::Attribute;
use std::sync::atomic::AtomicBool;

/// Vec with ONE fixed allocation of N slots and a (possibly symbolic) length <= N
fn fixed_vec<T, const N: usize>(items: [T; N], len: usize) -> Vec<T> {
    assert!(len <= N);
    let p = Box::into_raw(Box::new(items)) as *mut T;
    unsafe { Vec::from_raw_parts(p, len, N) }
}

fn any_role() -> PeerRole {
    let r: u8 = kani::any();
    kani::assume(r < 5);
    match r {
        0 => PeerRole::Ebgp,
        1 => PeerRole::RsClient,
        2 => PeerRole::Ibgp,
        3 => PeerRole::IbgpRrClient,
        _ => PeerRole::ConfedEbgp,
    }
}

struct Facts {
    llgr_stale: bool,
    local_pref: u32,
    hops: usize,
    origin: u8,
    ebgp: bool,
    gr_stale: bool,
    cluster_len: usize,
    tiebreak_id: u32,
}

/// reference key written from the statement (RFC 9494 least-preferred first)
fn better(a: &Facts, b: &Facts) -> std::cmp::Ordering {
    use std::cmp::Ordering::*;
    if a.llgr_stale != b.llgr_stale {
        return if !a.llgr_stale { Less } else { Greater };
    }
    if a.local_pref != b.local_pref {
        return if a.local_pref > b.local_pref { Less } else { Greater };
    }
    if a.hops != b.hops {
        return if a.hops < b.hops { Less } else { Greater };
    }
    if a.origin != b.origin {
        return if a.origin < b.origin { Less } else { Greater };
    }
    if a.ebgp != b.ebgp {
        return if a.ebgp { Less } else { Greater };
    }
    if a.gr_stale != b.gr_stale {
        return if !a.gr_stale { Less } else { Greater };
    }
    if a.cluster_len != b.cluster_len {
        return if a.cluster_len < b.cluster_len { Less } else { Greater };
    }
    a.tiebreak_id.cmp(&b.tiebreak_id)
}

/// AS_PATH with skeleton [seg(count 2), seg(count 1)], symbolic segment types and ASNs
fn as_path_2_1() -> (Attribute, usize) {
    let t0: u8 = kani::any();
    kani::assume(t0 >= 1 && t0 <= 4);
    let t1: u8 = kani::any();
    kani::assume(t1 >= 1 && t1 <= 4);
    let mut b = [0u8; 16];
    let body: [u8; 12] = kani::any();
    b[0] = t0;
    b[1] = 2;
    let mut i = 0;
    while i < 8 {
        b[2 + i] = body[i];
        i += 1;
    }
    b[10] = t1;
    b[11] = 1;
    while i < 12 {
        b[4 + i] = body[i];
        i += 1;
    }
    let hop = |t: u8, n: usize| match t {
        1 => 1,
        2 => n,
        _ => 0,
    };
    (
        Attribute::new_with_bin(Attribute::AS_PATH, fixed_vec(b, 16)).unwrap(),
        hop(t0, 2) + hop(t1, 1),
    )
}

/// shape 0: every attribute the comparator looks at is present (symbolic values);
/// shape 1: no attributes at all (defaults apply);
/// shape 2: ORIGIN + AS_PATH + COMMUNITY only (no LOCAL_PREF / ORIGINATOR_ID / CLUSTER_LIST)
fn any_entry(shape: u8) -> (RibEntry, Facts, Arc<Vec<Attribute>>, Arc<Source>) {
    let role = any_role();
    let router_id: u32 = kani::any();
    let gr_stale: bool = kani::any();
    let src_llgr: bool = kani::any();
    let source = Arc::new(Source {
        remote_addr: IpAddr::V4(Ipv4Addr::new(10, 0, 0, 1)),
        local_addr: IpAddr::V4(Ipv4Addr::new(10, 0, 0, 2)),
        remote_asn: kani::any(),
        local_asn: kani::any(),
        router_id,
        role,
        stale: AtomicBool::new(gr_stale),
        llgr_stale: AtomicBool::new(src_llgr),
    });
    let mut f = Facts {
        llgr_stale: src_llgr,
        local_pref: Attribute::DEFAULT_LOCAL_PREF,
        hops: 0,
        origin: Attribute::ORIGIN_INCOMPLETE,
        ebgp: matches!(role, PeerRole::Ebgp | PeerRole::RsClient),
        gr_stale,
        cluster_len: 0,
        tiebreak_id: router_id,
    };
    let attrs: Vec<Attribute> = if shape == 1 {
        Vec::new()
    } else {
        let origin: u8 = kani::any();
        kani::assume(origin <= 2);
        f.origin = origin;
        let (asp, hops) = as_path_2_1();
        f.hops = hops;
        let comm: [u8; 4] = kani::any();
        if u32::from_be_bytes(comm) == 0xffff_0006 {
            f.llgr_stale = true;
        }
        let o = Attribute::new_with_value(Attribute::ORIGIN, origin as u32).unwrap();
        let c = Attribute::new_with_bin(Attribute::COMMUNITY, fixed_vec(comm, 4)).unwrap();
        if shape == 0 {
            let lp: u32 = kani::any();
            f.local_pref = lp;
            let oid: u32 = kani::any();
            f.tiebreak_id = oid;
            let cl_words: usize = kani::any();
            kani::assume(cl_words <= 2);
            f.cluster_len = cl_words;
            let cl: [u8; 8] = kani::any();
            fixed_vec(
                [
                    o,
                    asp,
                    Attribute::new_with_value(Attribute::LOCAL_PREF, lp).unwrap(),
                    c,
                    Attribute::new_with_value(Attribute::ORIGINATOR_ID, oid).unwrap(),
                    Attribute::new_with_bin(Attribute::CLUSTER_LIST, fixed_vec(cl, cl_words * 4))
                        .unwrap(),
                ],
                6,
            )
        } else {
            fixed_vec([o, asp, c], 3)
        }
    };
    let attr = Arc::new(attrs);
    let e = RibEntry {
        path: Path {
            local_path_id: kani::any(),
            source: source.clone(),
            nexthop: None,
            attr: attr.clone(),
        },
        original_attr: attr.clone(),
        remote_path_id: kani::any(),
        timestamp: kani::any(),
        flags: kani::any(),
    };
    (e, f, attr, source)
}

fn cmp_spec(sa: u8, sb: u8) -> std::cmp::Ordering {
    let (a, fa, ka, ksa) = any_entry(sa);
    let (b, fb, kb, ksb) = any_entry(sb);
    let got = a.cmp(&b);
    let want = better(&fa, &fb);
    assert!(got == want);
    // the other direction is the mirror image (antisymmetry on the real comparator)
    assert!(b.cmp(&a) == want.reverse());
    // Eq agrees with Ord
    assert!((a == b) == (want == std::cmp::Ordering::Equal));
    core::mem::forget(a);
    core::mem::forget(b);
    core::mem::forget((ka, kb, ksa, ksb));
    got
}

//@ id=C02 tier=thorough cap=2400 mem=40
//@ fn: <RibEntry as Ord>::cmp, RibEntry::is_llgr_stale, RibEntry::originator_id, has_llgr_stale_community, PathAttribute::attr_*, bgp::Attribute::as_path_length, PeerRole::prefers_over_ibgp
//@ bound: two entries, both with ALL decision attributes present: ORIGIN, AS_PATH (2 segments of 2+1 ASNs, segment types symbolic), LOCAL_PREF, COMMUNITY (4 symbolic bytes, may be LLGR_STALE), ORIGINATOR_ID, CLUSTER_LIST (0..2 ids); source role / router id / GR-stale / LLGR-stale symbolic; unwind 10
//@ desc: real comparator == reference key of the statement (LLGR-stale least preferred first, LOCAL_PREF, hops with SET=1/CONFED=0, ORIGIN, eBGP, GR-stale, CLUSTER_LIST, ORIGINATOR_ID/router-id); antisymmetric; Eq consistent
#[kani::proof]
#[kani::unwind(10)]
fn c02_cmp_spec_full_full() {
    let got = cmp_spec(0, 0);
    kani::cover!(got == std::cmp::Ordering::Equal);
    kani::cover!(got == std::cmp::Ordering::Less);
}

//@ id=C02 tier=quick cap=1500 mem=20
//@ fn: <RibEntry as Ord>::cmp and helpers
//@ bound: entry with all decision attributes vs. entry with NO attributes (defaults: LOCAL_PREF 100, ORIGIN incomplete, empty path, router-id tie-break); unwind 10
//@ desc: defaults for absent attributes match the statement
#[kani::proof]
#[kani::unwind(10)]
fn c02_cmp_spec_full_none() {
    let got = cmp_spec(0, 1);
    kani::cover!(got == std::cmp::Ordering::Greater);
    kani::cover!(got == std::cmp::Ordering::Less);
}

//@ id=C02 tier=thorough cap=1800 mem=24
//@ fn: <RibEntry as Ord>::cmp and helpers
//@ bound: shape pairs (ORIGIN+AS_PATH+COMMUNITY only) x (all attributes); unwind 10
//@ desc: mixed presence
#[kani::proof]
#[kani::unwind(10)]
fn c02_cmp_spec_partial_full() {
    let got = cmp_spec(2, 0);
    kani::cover!(got == std::cmp::Ordering::Less);
}

//@ id=C02 tier=thorough cap=1800 mem=24
//@ fn: <RibEntry as Ord>::cmp and helpers
//@ bound: shape pairs (ORIGIN+AS_PATH+COMMUNITY only) x (ORIGIN+AS_PATH+COMMUNITY only), and none x none; unwind 10
//@ desc: mixed presence
#[kani::proof]
#[kani::unwind(10)]
fn c02_cmp_spec_partial_partial() {
    let got = if kani::any() { cmp_spec(2, 2) } else { cmp_spec(1, 1) };
    kani::cover!(got == std::cmp::Ordering::Equal);
}

//@ id=C02 tier=quick cap=900
//@ fn: bgp::Attribute::as_path_length
//@ bound: AS_PATH of two segments with counts (255, 255) and (200, 0), segment types symbolic (SET/SEQ/CONFED_SEQ/CONFED_SET), 2040 / 802 bytes; unwind 4
//@ desc: hop count = sum(SEQ count) + #SET, confed segments count zero, computed without overflow beyond 255 hops
#[kani::proof]
#[kani::unwind(4)]
fn c02_hops_long_paths() {
    let t0: u8 = kani::any();
    kani::assume(t0 >= 1 && t0 <= 4);
    let t1: u8 = kani::any();
    kani::assume(t1 >= 1 && t1 <= 4);
    let big: bool = kani::any();
    let (c0, c1): (usize, usize) = if big { (255, 255) } else { (200, 0) };
    // contents of the ASNs are irrelevant to the count: zero-filled buffer of the exact size
    let mut v = vec![0u8; 2 + 4 * c0 + 2 + 4 * c1];
    v[0] = t0;
    v[1] = c0 as u8;
    v[2 + 4 * c0] = t1;
    v[3 + 4 * c0] = c1 as u8;
    let a = Attribute::new_with_bin(Attribute::AS_PATH, v).unwrap();
    let hop = |t: u8, n: usize| match t {
        1 => 1,
        2 => n,
        _ => 0,
    };
    assert!(a.as_path_length() == hop(t0, c0) + hop(t1, c1));
    kani::cover!(big && t0 == 2 && t1 == 2);
    core::mem::forget(a);
}

//@ id=C02 tier=thorough cap=600 expect=fail
//@ fn: <RibEntry as Ord>::cmp
//@ bound: as c02_cmp_spec_full_none
//@ desc: vacuity twin - claims a path without attributes never wins; must be refuted
#[kani::proof]
#[kani::unwind(10)]
fn c02_cmp_twin_must_fail() {
    let (a, _fa, ka, ksa) = any_entry(1);
    let (b, _fb, kb, ksb) = any_entry(1);
    assert!(a.cmp(&b) != std::cmp::Ordering::Less);
    core::mem::forget(a);
    core::mem::forget(b);
    core::mem::forget((ka, kb, ksa, ksb));
}

// ---------------------------------------------------------------------------------
// C06 / C01: destination id allocator
// ---------------------------------------------------------------------------------

//@ id=C01 tier=quick cap=600
//@ fn: IdAllocator::alloc, IdAllocator::dealloc
//@ bound: ANY bitmap of 0..=2 words (no trailing zero word) x shard index 0..=255; alloc then dealloc; unwind 5
//@ desc: alloc returns the lowest free local id (never one in use), marks exactly that bit, keeps the shard bits; dealloc clears exactly that bit; ids of live destinations are therefore unique, and a freed id IS handed out again at once (the premise of the PendingTx re-use clause)
#[kani::proof]
#[kani::unwind(5)]
fn c01_id_alloc_step() {
    let w0: u64 = kani::any();
    let w1: u64 = kani::any();
    let n: usize = kani::any();
    kani::assume(n <= 2);
    // representation invariant kept by dealloc: no trailing all-zero word
    kani::assume(n < 1 || !(n == 1 && w0 == 0));
    kani::assume(n < 2 || w1 != 0);
    let shard: u32 = kani::any();
    kani::assume(shard < 256);
    let mut al = IdAllocator {
        bits: fixed_vec([w0, w1, 0u64], n),
        shard_idx: shard,
    };
    let in_use = |id: u32| -> bool {
        let i = (id / 64) as usize;
        if i >= n {
            return false;
        }
        let w = if i == 0 { w0 } else { w1 };
        w & (1u64 << (id % 64)) != 0
    };
    let id = al.alloc();
    let local = id & 0x00ff_ffff;
    assert!(id >> 24 == shard);
    assert!(!in_use(local));
    // lowest free id
    let probe: u32 = kani::any();
    kani::assume(probe < local);
    assert!(in_use(probe));
    // exactly that bit was set
    let words = al.bits.len();
    assert!(words >= n && words <= 3);
    let i = (local / 64) as usize;
    assert!(i < words);
    assert!(al.bits[i] & (1u64 << (local % 64)) != 0);
    if n >= 1 && i != 0 {
        assert!(al.bits[0] == w0);
    }
    if n >= 2 && i != 1 {
        assert!(al.bits[1] == w1);
    }
    // dealloc undoes it
    al.dealloc(id);
    let after = al.bits.len();
    assert!(after <= n);
    if n >= 1 && after >= 1 {
        assert!(al.bits[0] == w0);
    }
    if n >= 2 && after >= 2 {
        assert!(al.bits[1] == w1);
    }
    kani::cover!(local == 64);
    kani::cover!(local == 128);
    kani::cover!(local == 5);
    core::mem::forget(al);
}

// ---------------------------------------------------------------------------------
// C02: ECMP set
// ---------------------------------------------------------------------------------

fn path_of(e: &RibEntry) -> Path {
    Path {
        local_path_id: e.path.local_path_id,
        source: e.path.source.clone(),
        nexthop: None,
        attr: e.path.attr.clone(),
    }
}

fn ecmp_case(sa: u8, sb: u8) -> bool {
    let (a, fa, ka, ksa) = any_entry(sa);
    let (b, fb, kb, ksb) = any_entry(sb);
    // the list handed to consumers is ranked: best first
    kani::assume(better(&fa, &fb) != std::cmp::Ordering::Greater);
    let ch = NlriChange {
        family: Family::IPV4,
        net: packet::Nlri::V4(packet::bgp::Ipv4Net {
            addr: Ipv4Addr::new(10, 1, 0, 0),
            mask: 16,
        }),
        dest_id: 0,
        best_changed: true,
        any_changed: true,
        replaced_path_id: None,
        current_paths: Arc::new(fixed_vec([path_of(&a), path_of(&b)], 2)),
    };
    let n = ch.ecmp_paths().len();
    let tie = fa.llgr_stale == fb.llgr_stale
        && fa.local_pref == fb.local_pref
        && fa.hops == fb.hops
        && fa.origin == fb.origin
        && fa.ebgp == fb.ebgp
        && fa.gr_stale == fb.gr_stale
        && fa.cluster_len == fb.cluster_len;
    assert!(n == if tie { 2 } else { 1 });
    core::mem::forget(ch);
    core::mem::forget(a);
    core::mem::forget(b);
    core::mem::forget((ka, kb, ksa, ksb));
    tie
}

//@ id=C02 tier=quick cap=900
//@ fn: NlriChange::ecmp_paths, PathAttribute::attr_*, has_llgr_stale_community
//@ bound: current_paths = [best, second], both without attributes (defaults), sources symbolic (role, router id, GR-stale, LLGR-stale), ranked best-first under the reference key; unwind 4
//@ desc: ECMP set = leading run of paths tying with the best on EVERY decision step before router-id: the second path is in the set iff it ties on LLGR-stale, LOCAL_PREF, hops, ORIGIN, eBGP, GR-stale and CLUSTER_LIST length
#[kani::proof]
#[kani::unwind(4)]
fn c02_ecmp_sources_only() {
    let tie = ecmp_case(1, 1);
    kani::cover!(tie);
    kani::cover!(!tie);
}

//@ id=C02 tier=off cap=3600 mem=40
//@ fn: NlriChange::ecmp_paths and helpers
//@ bound: as c02_ecmp_sources_only with both paths carrying ORIGIN + AS_PATH (2+1 ASNs, symbolic segment types) + COMMUNITY; unwind 10
//@ desc: as c02_ecmp_sources_only, attribute-derived steps included
#[kani::proof]
#[kani::unwind(10)]
fn c02_ecmp_with_attrs() {
    let tie = ecmp_case(2, 2);
    kani::cover!(tie);
}
