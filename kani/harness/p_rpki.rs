// Kani harnesses for packet/src/rpki.rs (C03 RTR framing, C13 progress).
#![allow(unused_imports, dead_code, clippy::all)]

use super::*;

/// S4: message text is not the subject of any property
fn stub_format(_args: core::fmt::Arguments<'_>) -> String {
    String::new()
}

fn rtr_frame<const N: usize>() {
    let bytes: [u8; N] = kani::any();
    let len: usize = kani::any();
    kani::assume(len <= N);
    let buf = &bytes[..len];
    let declared = if len >= 8 {
        u32::from_be_bytes([bytes[4], bytes[5], bytes[6], bytes[7]]) as usize
    } else {
        0
    };
    let r = Message::frame_length(buf);
    match &r {
        // "need more bytes" exactly when the header or the declared PDU is incomplete
        Ok(None) => assert!(len < 8 || declared > len),
        // an accepted frame is at least a header, is fully buffered, and is what the header says
        Ok(Some(n)) => {
            assert!(*n >= 8 && *n <= len && *n == declared);
        }
        // rejected exactly when the length field can never be framed
        Err(_) => assert!(len >= 8 && declared < 8),
    }
    // a complete PDU in the buffer is never answered with "need more bytes"
    if len >= 8 && declared >= 8 && declared <= len {
        assert!(matches!(r, Ok(Some(_))));
    }
    if let Ok(Some(n)) = r {
        let frame = &bytes[..n];
        let known = Message::is_known_type(frame[1]);
        // the PDU parser is total on a complete frame: a message or an error, never a panic
        let m = Message::from_bytes(frame);
        match &m {
            Ok((_, consumed)) => {
                // it accounts for exactly the frame, so decode consumes >= 8 bytes per message
                assert!(*consumed == n);
                assert!(known);
            }
            Err(_) => {}
        }
        // unknown types are skipped by decode (is_known_type false) and never parsed as a message
        if !known {
            assert!(m.is_err());
        }
        kani::cover!(m.is_ok());
        kani::cover!(!known);
        kani::cover!(known && m.is_err());
        core::mem::forget(m);
    }
    kani::cover!(matches!(r, Err(_)));
    core::mem::forget(r);
}

//@ id=C03 tier=quick cap=600
//@ fn: rpki::Message::frame_length, rpki::Message::is_known_type, rpki::Message::from_bytes
//@ bound: ALL byte strings of length 0..=24 (every header field symbolic, incl. the 32-bit length field); unwind 20
//@ desc: RTR framing: need-more-bytes iff header or declared PDU incomplete; length<8 rejected; a complete frame is accepted and from_bytes on it returns a message accounting for exactly the frame, or an error; never panics. RtrCodec::decode composes exactly these three calls around BytesMut::split_to.
//@ outside: BytesMut::split_to itself (bytes crate); IPv6 prefix PDUs need 32 bytes (see c03_rtr_frame_40)
#[kani::proof]
#[kani::unwind(20)]
#[kani::stub(alloc::fmt::format, stub_format)]
fn c03_rtr_frame_24() {
    rtr_frame::<24>();
}

//@ id=C03 tier=thorough cap=1500
//@ fn: rpki::Message::frame_length, rpki::Message::is_known_type, rpki::Message::from_bytes
//@ bound: ALL byte strings of length 0..=40 (covers IPv6 prefix and v1 End-of-Data PDUs completely); unwind 20
//@ desc: as c03_rtr_frame_24
#[kani::proof]
#[kani::unwind(20)]
#[kani::stub(alloc::fmt::format, stub_format)]
fn c03_rtr_frame_40() {
    rtr_frame::<40>();
}

//@ id=C13 tier=quick cap=600
//@ fn: rpki::Message::frame_length, rpki::Message::is_known_type, rpki::Message::from_bytes
//@ bound: any well-formed PDU header (version 0/1, ANY type byte incl. Router Key (9) / ASPA (11) / unknown, length 8..=24 fully buffered, arbitrary body bytes) followed by arbitrary bytes; unwind 20
//@ desc: progress: every well-formed PDU, whatever its type, is framed (>= 8 bytes leave the buffer) - used types parse or error, unused types are skipped; the client can never be stuck asking for more bytes on a complete PDU
#[kani::proof]
#[kani::unwind(20)]
#[kani::stub(alloc::fmt::format, stub_format)]
fn c13_rtr_progress() {
    let mut bytes: [u8; 24] = kani::any();
    let plen: u8 = kani::any();
    kani::assume(plen >= 8 && plen <= 24);
    bytes[4] = 0;
    bytes[5] = 0;
    bytes[6] = 0;
    bytes[7] = plen;
    let r = Message::frame_length(&bytes[..]);
    assert!(matches!(r, Ok(Some(n)) if n == plen as usize));
    let known = Message::is_known_type(bytes[1]);
    let m = Message::from_bytes(&bytes[..plen as usize]);
    if let Ok((_, consumed)) = &m {
        assert!(*consumed == plen as usize && known);
    }
    kani::cover!(bytes[1] == 9 && !known);
    kani::cover!(bytes[1] == Message::IPV4_PREFIX && m.is_ok());
    kani::cover!(bytes[1] == Message::IPV4_PREFIX && m.is_err());
    core::mem::forget(m);
    core::mem::forget(r);
}

//@ id=C03 tier=thorough cap=600 expect=fail
//@ fn: rpki::Message::frame_length
//@ bound: as c03_rtr_frame_24
//@ desc: vacuity twin - claims no buffer is ever rejected; must be refuted
#[kani::proof]
#[kani::unwind(20)]
fn c03_rtr_twin_must_fail() {
    let bytes: [u8; 12] = kani::any();
    let r = Message::frame_length(&bytes[..]);
    assert!(r.is_ok());
    core::mem::forget(r);
}

//@ id=C13 tier=off cap=3600 mem=40
//@ fn: rpki::RtrCodec::decode (tokio_util Decoder impl), rpki::Message::frame_length, is_known_type, from_bytes, bytes::BytesMut::split_to
//@ bound: buffer = one PDU of a type the client does not use (type byte symbolic among the unused ones, 8..12 bytes long with symbolic body) immediately followed by a complete Cache Reset PDU; one decode call; unwind 20
//@ desc: progress through the real decode(): the unused PDU is skipped and the following PDU is returned by the SAME call (a decoder that answered "need more bytes" here would stall until the cache happened to send more data); the buffer is fully consumed
#[kani::proof]
#[kani::unwind(20)]
#[kani::stub(alloc::fmt::format, stub_format)]
fn c13_rtr_decode_skips_unused_pdu() {
    let ty: u8 = kani::any();
    kani::assume(!Message::is_known_type(ty));
    let extra: bool = kani::any();
    let body: [u8; 4] = kani::any();
    let mut raw = [0u8; 20];
    let l1 = if extra { 12 } else { 8 };
    raw[0] = 1;
    raw[1] = ty;
    raw[7] = l1 as u8;
    if extra {
        raw[8] = body[0];
        raw[9] = body[1];
        raw[10] = body[2];
        raw[11] = body[3];
    }
    raw[l1] = 1;
    raw[l1 + 1] = Message::CACHE_RESET;
    raw[l1 + 7] = 8;
    let mut buf = BytesMut::with_capacity(32);
    buf.extend_from_slice(&raw[..l1 + 8]);
    let mut codec = RtrCodec::new();
    let r = codec.decode(&mut buf);
    assert!(matches!(r, Ok(Some(Message::CacheReset))));
    assert!(buf.is_empty());
    kani::cover!(extra);
    kani::cover!(ty == 9);
    core::mem::forget(r);
    core::mem::forget(buf);
}
