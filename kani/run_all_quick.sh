#!/bin/bash
# runs every claimed property's quick check in /verif (writes evidence/<id>.json)
cd /verif
for id in $(python3 -c "import json;print(' '.join(c['property_id'] for c in json.load(open('MANIFEST.json'))['checks']))"); do
  s=$(date +%s)
  ./vcheck $id --tier quick > /var/tmp/runs/quick-$id.out 2>&1
  echo "$id rc=$? $(( $(date +%s) - s ))s"
done
