// Kani harnesses for daemon/src/event/mod.rs (pure helpers of the GR glue: C10 eligibility).
#![allow(unused_imports, dead_code, clippy::all)]

use super::*;

fn fixed_vec<T, const N: usize>(items: [T; N], len: usize) -> Vec<T> {
    assert!(len <= N);
    let p = Box::into_raw(Box::new(items)) as *mut T;
    unsafe { Vec::from_raw_parts(p, len, N) }
}

fn any_gr(nbit: bool) -> NegotiatedGr {
    NegotiatedGr {
        families: fixed_vec([Family::IPV4, Family::IPV6], 2),
        restart_time: Duration::from_secs(120),
        notification_enabled: nbit,
    }
}

//@ id=C10 tier=quick cap=600
//@ fn: event::gr_on_disconnect, bgp::Notification::from_notification, is_hard_reset, notification_code
//@ bound: ALL disconnect reasons: none / I/O error / hold-timer / admin shutdown / FSM error / NOTIFICATION sent or received with ANY (code, subcode) pair; N-bit negotiated or not; unwind 4
//@ desc: helper mode is entered iff the drop is a TCP/I-O failure, or (N-bit) a hold-timer expiry, or (N-bit) a Cease NOTIFICATION other than Hard Reset; never for admin shutdown, FSM error, hard reset or a non-Cease NOTIFICATION
#[kani::proof]
#[kani::unwind(4)]
fn c10_gr_eligibility() {
    let nbit: bool = kani::any();
    let k: u8 = kani::any();
    kani::assume(k < 7);
    let code: u8 = kani::any();
    let subcode: u8 = kani::any();
    let reason: Option<crate::fsm::SessionDownReason> = match k {
        0 => None,
        1 => Some(crate::fsm::SessionDownReason::IoError),
        2 => Some(crate::fsm::SessionDownReason::HoldTimerExpired),
        3 => Some(crate::fsm::SessionDownReason::AdminShutdown),
        4 => Some(crate::fsm::SessionDownReason::FsmError),
        5 => Some(crate::fsm::SessionDownReason::RemoteNotification(
            bgp::Message::Notification(rustybgp_packet::Notification::from_notification(
                code,
                subcode,
                Vec::new(),
            )),
        )),
        _ => Some(crate::fsm::SessionDownReason::LocalNotification(
            bgp::Message::Notification(rustybgp_packet::Notification::from_notification(
                code,
                subcode,
                Vec::new(),
            )),
        )),
    };
    let r = gr_on_disconnect(&reason, any_gr(nbit));
    let helper = r.is_some();
    let cease_soft = code == 6 && subcode != 9;
    let want = match k {
        0 | 1 => true,
        2 => nbit,
        3 | 4 => false,
        _ => nbit && cease_soft,
    };
    assert!(helper == want);
    kani::cover!(k == 5 && helper);
    kani::cover!(k == 5 && nbit && code == 3);
    kani::cover!(k == 6 && nbit && code == 6 && subcode == 9);
    core::mem::forget(r);
    core::mem::forget(reason);
}

//@ id=C10 tier=quick cap=600
//@ fn: event::families_to_drop_on_disconnect
//@ bound: session families = any subset of {v4,v6,vpn4}; negotiated GR / LLGR family lists = any subsets (absent or present); unwind 6
//@ desc: on disconnect exactly the session families that are neither GR- nor LLGR-negotiated are dropped at once (every other family's routes are removed immediately)
#[kani::proof]
#[kani::unwind(6)]
fn c10_families_to_drop() {
    const FAM: [Family; 3] = [Family::IPV4, Family::IPV6, Family::IPV4_VPN];
    let pick = |m: u8| -> ([Family; 3], usize) {
        let mut a = [FAM[0]; 3];
        let mut n = 0usize;
        if m & 1 != 0 {
            a[n] = FAM[0];
            n += 1;
        }
        if m & 2 != 0 {
            a[n] = FAM[1];
            n += 1;
        }
        if m & 4 != 0 {
            a[n] = FAM[2];
            n += 1;
        }
        (a, n)
    };
    let sm: u8 = kani::any();
    let gm: u8 = kani::any();
    let lm: u8 = kani::any();
    kani::assume(sm < 8 && gm < 8 && lm < 8);
    let (sa, sn) = pick(sm);
    let session = fixed_vec(sa, sn);
    let gr = if gm != 0 {
        let (a, n) = pick(gm);
        Some(NegotiatedGr {
            families: fixed_vec(a, n),
            restart_time: Duration::from_secs(1),
            notification_enabled: kani::any(),
        })
    } else {
        None
    };
    let llgr = if lm != 0 {
        let (a, n) = pick(lm);
        let d = Duration::from_secs(5);
        Some(NegotiatedLlgr {
            families: fixed_vec([(a[0], d), (a[1], d), (a[2], d)], n),
        })
    } else {
        None
    };
    let out = families_to_drop_on_disconnect(session.iter(), gr.as_ref(), llgr.as_ref());
    let mut got = 0u8;
    let mut i = 0;
    while i < out.len() {
        if out[i] == FAM[0] {
            got |= 1;
        } else if out[i] == FAM[1] {
            got |= 2;
        } else if out[i] == FAM[2] {
            got |= 4;
        } else {
            got |= 0x80;
        }
        i += 1;
    }
    assert!(got == sm & !gm & !lm);
    kani::cover!(got != 0 && gm != 0 && lm != 0);
    core::mem::forget((out, session, gr, llgr));
}

//@ id=C10 tier=off cap=3600 mem=40
//@ fn: event::collect_delete_families, event::collect_delete_llgr_families
//@ bound: output list [StopTimer, DeleteStaleRoutes(F1), StartLlgrTimers(..), DeleteLlgrStaleRoutes(F2), DeleteStaleRoutes(F3)] with F1, F2, F3 any subsets of {v4,v6,vpn4}; unwind 8
//@ desc: the driver-side extraction of what to purge returns exactly the union of the DeleteStaleRoutes lists (resp. DeleteLlgrStaleRoutes lists) and nothing from other outputs
#[kani::proof]
#[kani::unwind(8)]
fn c10_collect_delete() {
    const FAM: [Family; 3] = [Family::IPV4, Family::IPV6, Family::IPV4_VPN];
    let pick = |m: u8| -> Vec<Family> {
        let mut a = [FAM[0]; 3];
        let mut n = 0usize;
        if m & 1 != 0 {
            a[n] = FAM[0];
            n += 1;
        }
        if m & 2 != 0 {
            a[n] = FAM[1];
            n += 1;
        }
        if m & 4 != 0 {
            a[n] = FAM[2];
            n += 1;
        }
        fixed_vec(a, n)
    };
    let m1: u8 = kani::any();
    let m2: u8 = kani::any();
    let m3: u8 = kani::any();
    kani::assume(m1 < 8 && m2 < 8 && m3 < 8);
    let outs = fixed_vec(
        [
            crate::gr::GrOutput::StopTimer,
            crate::gr::GrOutput::DeleteStaleRoutes(pick(m1)),
            crate::gr::GrOutput::StartLlgrTimers(fixed_vec(
                [(Family::IPV6, Duration::from_secs(1))],
                1,
            )),
            crate::gr::GrOutput::DeleteLlgrStaleRoutes(pick(m2)),
            crate::gr::GrOutput::DeleteStaleRoutes(pick(m3)),
        ],
        5,
    );
    let mask = |v: &Vec<Family>| -> (u8, usize) {
        let mut m = 0u8;
        let mut i = 0;
        while i < v.len() {
            if v[i] == FAM[0] {
                m |= 1;
            } else if v[i] == FAM[1] {
                m |= 2;
            } else if v[i] == FAM[2] {
                m |= 4;
            } else {
                m |= 0x80;
            }
            i += 1;
        }
        (m, v.len())
    };
    let pc = |m: u8| (m & 1) as usize + ((m >> 1) & 1) as usize + ((m >> 2) & 1) as usize;
    let g = collect_delete_families(&outs);
    let l = collect_delete_llgr_families(&outs);
    let (gm, gn) = mask(&g);
    let (lm, ln) = mask(&l);
    assert!(gm == m1 | m3 && gn == pc(m1) + pc(m3));
    assert!(lm == m2 && ln == pc(m2));
    kani::cover!(gm == 7 && lm == 0);
    kani::cover!(lm == 5);
    core::mem::forget((g, l, outs));
}
