#!/bin/bash
# validation run of every claimed property's thorough command (evidence goes to a scratch dir so
# that the committed quick evidence is not replaced)
cd /verif
mkdir -p /var/tmp/thorough-ev
for id in $(python3 -c "import json;print(' '.join(c['property_id'] for c in json.load(open('MANIFEST.json'))['checks']))"); do
  s=$(date +%s)
  VERIF_EVIDENCE_DIR=/var/tmp/thorough-ev ./vcheck $id --tier thorough > /var/tmp/runs/thorough-$id.out 2>&1
  echo "$id rc=$? $(( $(date +%s) - s ))s"
done
