// Kani harnesses for daemon/src/fsm.rs (C07, C08, C16-sendmax).
// Injected as a child module of `fsm`, so private fields/functions are reachable.
#![allow(unused_imports, dead_code, clippy::all)]

use super::*;
use rustybgp_packet::Notification;

// ---------------------------------------------------------------------------------
// helpers
// ---------------------------------------------------------------------------------

fn any_state() -> State {
    let s: u8 = kani::any();
    kani::assume(s <= 5);
    State::try_from(s).unwrap()
}

fn any_role() -> Role {
    if kani::any() { Role::Active } else { Role::Passive }
}

/// A Connection in an arbitrary state with arbitrary numeric parameters.  Capability
/// lists are empty (negotiation is C16's obligation).
fn any_connection() -> Connection {
    let local_holdtime: u16 = kani::any();
    let negotiated: u16 = kani::any();
    let ka: u16 = kani::any();
    Connection {
        state: any_state(),
        local_asn: kani::any(),
        local_router_id: kani::any(),
        local_holdtime: local_holdtime as u64,
        local_cap: Vec::new(),
        expected_remote_asn: kani::any(),
        remote_asn: kani::any(),
        remote_id: kani::any(),
        remote_holdtime: kani::any(),
        remote_cap: Vec::new(),
        negotiated_holdtime: negotiated as u64,
        keepalive_interval: ka as u64,
    }
}

/// Summary of an output vector (no payload moved).
#[derive(Default, Clone, Copy)]
struct Summary {
    n: usize,
    session_down: usize,
    down_local_fsm_state: Option<u8>, // SessionDown(LocalNotification(FsmUnexpectedState{state}), Some(same))
    down_bad_peer_as: bool,
    down_remote_notification: bool,
    down_hold: bool,
    down_io: bool,
    down_admin: bool,
    down_collision: bool,
    down_has_notification: bool,
    state_changed: Option<State>,
    n_state_changed: usize,
    established: usize,
    negotiated: usize,
    set_hold: Option<u64>,
    n_set_hold: usize,
    set_ka: Option<u64>,
    n_set_ka: usize,
    send_keepalive: usize,
    send_open: usize,
    send_other: usize,
    route_refresh: usize,
}

fn is_fsm_unexpected(m: &bgp::Message) -> Option<u8> {
    if let bgp::Message::Notification(Notification::FsmUnexpectedState { state }) = m {
        Some(*state)
    } else {
        None
    }
}

fn add(s: &mut Summary, o: &Output) {
    s.n += 1;
    match o {
        Output::SendMessage(m) => match m {
            bgp::Message::Keepalive => s.send_keepalive += 1,
            bgp::Message::Open(_) => s.send_open += 1,
            _ => s.send_other += 1,
        },
        Output::SetKeepaliveTimer(v) => {
            s.set_ka = Some(*v);
            s.n_set_ka += 1;
        }
        Output::SetHoldTimer(v) => {
            s.set_hold = Some(*v);
            s.n_set_hold += 1;
        }
        Output::SessionNegotiated(_) => s.negotiated += 1,
        Output::SessionEstablished { .. } => s.established += 1,
        Output::SessionDown(reason, notif) => {
            s.session_down += 1;
            s.down_has_notification = notif.is_some();
            match reason {
                SessionDownReason::HoldTimerExpired => s.down_hold = true,
                SessionDownReason::RemoteNotification(_) => s.down_remote_notification = true,
                SessionDownReason::LocalNotification(m) => {
                    if let Some(st) = is_fsm_unexpected(m) {
                        // the notification actually sent must be the same one
                        if let Some(sent) = notif {
                            if is_fsm_unexpected(sent) == Some(st) {
                                s.down_local_fsm_state = Some(st);
                            }
                        }
                    }
                    if let bgp::Message::Notification(Notification::OpenBadPeerAs) = m {
                        if let Some(bgp::Message::Notification(Notification::OpenBadPeerAs)) = notif
                        {
                            s.down_bad_peer_as = true;
                        }
                    }
                    if let bgp::Message::Notification(Notification::CeaseConnectionCollision) = m {
                        if let Some(bgp::Message::Notification(
                            Notification::CeaseConnectionCollision,
                        )) = notif
                        {
                            s.down_collision = true;
                        }
                    }
                }
                SessionDownReason::FsmError => {}
                SessionDownReason::AdminShutdown => s.down_admin = true,
                SessionDownReason::IoError => s.down_io = true,
            }
        }
        Output::StateChanged(st) => {
            s.state_changed = Some(*st);
            s.n_state_changed += 1;
        }
        Output::RouteRefresh(_) => s.route_refresh += 1,
    }
}

fn summarize(out: &Vec<Output>) -> Summary {
    let mut s = Summary::default();
    // at most 5 outputs per step in this machine; bounded loop
    let mut i = 0;
    while i < out.len() {
        add(&mut s, &out[i]);
        i += 1;
    }
    s
}

/// the exact "FSM error" reaction demanded by the property
fn is_fsm_error(s: &Summary, pre: State) -> bool {
    s.n == 1 && s.session_down == 1 && s.down_local_fsm_state == Some(u8::from(pre))
}

// ---------------------------------------------------------------------------------
// C07: one step of Connection from an arbitrary state, per input kind
// ---------------------------------------------------------------------------------

//@ id=C07 tier=quick cap=400
//@ fn: fsm::Connection::on_message, fsm::Connection::on_keepalive
//@ bound: one step from ANY Connection state (all 6 states; all u32/u16 numeric fields symbolic; empty capability lists); unwind 8
//@ desc: KEEPALIVE: Established only from OpenConfirm; disallowed state -> FSM-error NOTIFICATION carrying that state
#[kani::proof]
#[kani::unwind(8)]
fn c07_conn_step_keepalive() {
    let mut c = any_connection();
    let pre = c.state;
    let neg = c.negotiated_holdtime;
    let out = c.on_message(bgp::Message::Keepalive);
    let s = summarize(&out);
    match pre {
        State::OpenConfirm => {
            assert!(c.state == State::Established);
            assert!(s.established == 1 && s.session_down == 0);
            assert!(s.state_changed == Some(State::Established) && s.n_state_changed == 1);
        }
        State::Established => {
            assert!(c.state == State::Established);
            assert!(s.session_down == 0 && s.established == 0 && s.n_state_changed == 0);
        }
        _ => {
            assert!(is_fsm_error(&s, pre));
            assert!(c.state == pre);
        }
    }
    // Established is entered only from OpenConfirm
    assert!(c.state != State::Established || pre == State::OpenConfirm || pre == State::Established);
    kani::cover!(pre == State::OpenConfirm);
    kani::cover!(pre == State::Idle);
    let _ = neg;
    core::mem::forget(out);
    core::mem::forget(c);
}

//@ id=C07 tier=quick cap=600
//@ fn: fsm::Connection::on_open, bgp::PeerCodec::negotiate (empty lists)
//@ bound: one step from ANY Connection state; OPEN with symbolic AS/hold time/router id, empty capability list; unwind 8
//@ desc: OPEN: OpenConfirm only from OpenSent with expected AS; bad AS -> OpenBadPeerAs; other state -> FSM error
#[kani::proof]
#[kani::unwind(8)]
fn c07_conn_step_open() {
    let mut c = any_connection();
    let pre = c.state;
    let expected = c.expected_remote_asn;
    let asn: u32 = kani::any();
    let ht: u16 = kani::any();
    kani::assume(ht != 1 && ht != 2);
    let rid: u32 = kani::any();
    let open = bgp::Open {
        as_number: asn,
        holdtime: HoldTime::new(ht).unwrap(),
        router_id: rid,
        capability: Vec::new(),
    };
    let out = c.on_open(open);
    let s = summarize(&out);
    if pre != State::OpenSent {
        assert!(is_fsm_error(&s, pre));
        assert!(c.state == pre);
    } else if expected != 0 && expected != asn {
        assert!(s.n == 1 && s.session_down == 1 && s.down_bad_peer_as);
        assert!(c.state != State::OpenConfirm && c.state != State::Established);
    } else {
        assert!(c.state == State::OpenConfirm);
        assert!(s.session_down == 0 && s.established == 0);
        assert!(s.send_keepalive == 1 && s.negotiated == 1);
        assert!(s.state_changed == Some(State::OpenConfirm) && s.n_state_changed == 1);
        assert!(c.remote_id == rid && c.remote_asn == asn && c.remote_holdtime == ht);
    }
    // OpenConfirm is entered only from OpenSent by an OPEN with the expected AS
    if c.state == State::OpenConfirm && pre != State::OpenConfirm {
        assert!(pre == State::OpenSent && (expected == 0 || expected == asn));
    }
    assert!(c.state != State::Established || pre == State::Established);
    kani::cover!(pre == State::OpenSent && c.state == State::OpenConfirm);
    kani::cover!(pre == State::OpenSent && s.down_bad_peer_as);
    kani::cover!(pre == State::Established);
    core::mem::forget(out);
    core::mem::forget(c);
}

//@ id=C07 tier=quick cap=400
//@ fn: fsm::Connection::on_update, fsm::Connection::on_route_refresh
//@ bound: one step from ANY Connection state; unwind 8
//@ desc: UPDATE / ROUTE-REFRESH outside Established -> FSM error with the state
#[kani::proof]
#[kani::unwind(8)]
fn c07_conn_step_update_refresh() {
    let mut c = any_connection();
    let pre = c.state;
    let which: bool = kani::any();
    let out = if which {
        c.on_update()
    } else {
        c.on_route_refresh(Family::IPV4)
    };
    let s = summarize(&out);
    if pre == State::Established {
        assert!(s.session_down == 0 && s.n_state_changed == 0 && s.established == 0);
        assert!(which || s.route_refresh == 1);
    } else {
        assert!(is_fsm_error(&s, pre));
    }
    assert!(c.state == pre);
    kani::cover!(pre == State::Established && which);
    kani::cover!(pre == State::OpenConfirm && !which);
    core::mem::forget(out);
    core::mem::forget(c);
}

//@ id=C07 tier=quick cap=400
//@ fn: fsm::Connection::on_notification, on_hold_timer_expired, on_disconnected, on_admin_shutdown
//@ bound: one step from ANY Connection state x 4 teardown inputs; unwind 8
//@ desc: NOTIFICATION / hold expiry / disconnect / admin shutdown always yield exactly one SessionDown with the right reason
#[kani::proof]
#[kani::unwind(8)]
fn c07_conn_step_teardown() {
    // NOTIFICATION received, hold-timer expiry, disconnect, admin shutdown: a SessionDown
    // is produced whenever the connection exists on the wire (OpenSent..Established)
    let mut c = any_connection();
    let pre = c.state;
    let k: u8 = kani::any();
    kani::assume(k < 4);
    let out = match k {
        0 => c.on_notification(Notification::CeaseAdminShutdown),
        1 => c.on_hold_timer_expired(),
        2 => c.on_disconnected(),
        _ => c.on_admin_shutdown(),
    };
    let s = summarize(&out);
    let live = matches!(pre, State::OpenSent | State::OpenConfirm | State::Established);
    if live || k != 1 {
        assert!(s.n == 1 && s.session_down == 1);
        match k {
            0 => assert!(s.down_remote_notification && !s.down_has_notification),
            1 => assert!(s.down_hold && s.down_has_notification),
            2 => assert!(s.down_io && !s.down_has_notification),
            _ => assert!(s.down_admin && s.down_has_notification),
        }
    } else {
        assert!(s.n == 0);
    }
    // never a promotion
    assert!(c.state == pre);
    kani::cover!(k == 1 && live);
    kani::cover!(k == 0 && pre == State::Established);
    core::mem::forget(out);
    core::mem::forget(c);
}

//@ id=C07 tier=quick cap=400
//@ fn: fsm::Connection::on_keepalive_timer_expired, on_update_sent
//@ bound: one step from ANY Connection state; unwind 8
//@ desc: keepalive-timer expiry / update-sent never change state or tear down
#[kani::proof]
#[kani::unwind(8)]
fn c07_conn_step_timers_sent() {
    // keepalive-timer expiry and update-sent never change the state nor tear down
    let mut c = any_connection();
    let pre = c.state;
    let which: bool = kani::any();
    let out = if which {
        c.on_keepalive_timer_expired()
    } else {
        c.on_update_sent()
    };
    let s = summarize(&out);
    assert!(c.state == pre);
    assert!(s.session_down == 0 && s.n_state_changed == 0 && s.established == 0);
    kani::cover!(which && s.send_keepalive == 1);
    core::mem::forget(out);
    core::mem::forget(c);
}

/// `process` dispatches each payload-free input to the handler checked above.  The input
/// variant is concrete per instance: with a symbolic variant CBMC also explores the
/// MessageReceived arm and the drop glue of an arbitrary bgp::Message.
fn dispatch_case(k: u8) {
    let mut c = any_connection();
    let pre = c.state;
    let input = match k {
        0 => Input::KeepaliveTimerExpired,
        1 => Input::HoldTimerExpired,
        2 => Input::Disconnected,
        3 => Input::AdminShutdown,
        _ => Input::UpdateSent,
    };
    let out = c.process(input);
    let s = summarize(&out);
    match k {
        0 | 4 => assert!(s.session_down == 0 && c.state == pre),
        1 => {
            let live = matches!(pre, State::OpenSent | State::OpenConfirm | State::Established);
            assert!((s.session_down == 1 && s.down_hold) == live);
        }
        2 => assert!(s.session_down == 1 && s.down_io),
        _ => assert!(s.session_down == 1 && s.down_admin),
    }
    core::mem::forget(out);
    core::mem::forget(c);
}

//@ id=C07 tier=quick cap=600
//@ fn: fsm::Connection::process
//@ bound: one step from ANY Connection state x HoldTimerExpired / Disconnected (concrete variant per call); unwind 8
//@ desc: process() dispatches the input to the handler checked by the step harnesses
#[kani::proof]
#[kani::unwind(8)]
fn c07_conn_process_dispatch_down() {
    if kani::any() {
        dispatch_case(1);
    } else {
        dispatch_case(2);
    }
}

//@ id=C07 tier=thorough cap=600
//@ fn: fsm::Connection::process
//@ bound: one step from ANY Connection state x KeepaliveTimerExpired / AdminShutdown / UpdateSent; unwind 8
//@ desc: process() dispatches the input to the handler checked by the step harnesses
#[kani::proof]
#[kani::unwind(8)]
fn c07_conn_process_dispatch_other() {
    let k: u8 = kani::any();
    kani::assume(k < 3);
    match k {
        0 => dispatch_case(0),
        1 => dispatch_case(3),
        _ => dispatch_case(4),
    }
}

/// vacuity twin: must FAIL
//@ id=C07 tier=thorough cap=400 expect=fail
//@ fn: fsm::Connection::on_message
//@ bound: as c07_conn_step_keepalive
//@ desc: vacuity twin - asserts the state never changes on KEEPALIVE; must be refuted
#[kani::proof]
#[kani::unwind(8)]
fn c07_twin_must_fail() {
    let mut c = any_connection();
    let pre = c.state;
    let out = c.on_message(bgp::Message::Keepalive);
    assert!(c.state == pre);
    core::mem::forget(out);
    core::mem::forget(c);
}

// ---------------------------------------------------------------------------------
// C07: PeerFsm — collision handling and slot management (one step from an arbitrary
// two-slot state satisfying the invariant)
// ---------------------------------------------------------------------------------

fn slot_state() -> State {
    // a Connection held in a slot was created by on_connected and is therefore never in
    // Idle/Connect/Active (on_connected moves it to OpenSent at once)
    let s: u8 = kani::any();
    kani::assume(s >= 3 && s <= 5);
    State::try_from(s).unwrap()
}

fn slot_connection(f_local_id: u32, f_local_asn: u32, f_hold: u64, f_expected: u32) -> Connection {
    let negotiated: u16 = kani::any();
    let ka: u16 = kani::any();
    Connection {
        state: slot_state(),
        local_asn: f_local_asn,
        local_router_id: f_local_id,
        local_holdtime: f_hold,
        local_cap: Vec::new(),
        expected_remote_asn: f_expected,
        remote_asn: kani::any(),
        remote_id: kani::any(),
        remote_holdtime: kani::any(),
        remote_cap: Vec::new(),
        negotiated_holdtime: negotiated as u64,
        keepalive_interval: ka as u64,
    }
}

fn any_peer_fsm() -> PeerFsm {
    let local_router_id: u32 = kani::any();
    let local_asn: u32 = kani::any();
    let hold: u16 = kani::any();
    let expected: u32 = kani::any();
    let active = if kani::any() {
        Some(slot_connection(local_router_id, local_asn, hold as u64, expected))
    } else {
        None
    };
    let passive = if kani::any() {
        Some(slot_connection(local_router_id, local_asn, hold as u64, expected))
    } else {
        None
    };
    PeerFsm {
        active,
        passive,
        local_router_id,
        local_asn,
        local_cap: Vec::new(),
        local_holdtime: hold as u64,
        expected_remote_asn: expected,
        send_max: FnvHashMap::default(),
    }
}

fn advanced(s: State) -> bool {
    matches!(s, State::OpenConfirm | State::Established)
}

/// the collision invariant of the statement
fn inv(p: &PeerFsm) -> bool {
    !(advanced(p.state(Role::Active)) && advanced(p.state(Role::Passive)))
}

fn slot_ok(p: &PeerFsm, r: Role) -> bool {
    match p.connection(r) {
        None => true,
        Some(c) => matches!(c.state, State::OpenSent | State::OpenConfirm | State::Established),
    }
}

#[derive(Default, Clone, Copy)]
struct PSum {
    n: usize,
    own: Summary,          // outputs addressed to the calling role
    other_n: usize,        // outputs addressed to the other role
    other_cease: usize,    // SendMessage(Cease/collision) addressed to the other role
    close: usize,
    stop_active: usize,
    idle_after_down: bool, // last own output is StateChanged(Idle)
}

fn psum(out: &Vec<PeerFsmOutput>, role: Role) -> PSum {
    let mut s = PSum::default();
    let mut i = 0;
    while i < out.len() {
        s.n += 1;
        match &out[i] {
            PeerFsmOutput::Connection(r, o) => {
                if *r == role {
                    add(&mut s.own, o);
                    s.idle_after_down = matches!(o, Output::StateChanged(State::Idle));
                } else {
                    s.other_n += 1;
                    if let Output::SendMessage(bgp::Message::Notification(
                        Notification::CeaseConnectionCollision,
                    )) = o
                    {
                        s.other_cease += 1;
                    }
                }
            }
            PeerFsmOutput::CloseConnection => s.close += 1,
            PeerFsmOutput::StopActiveConnect => s.stop_active += 1,
        }
        i += 1;
    }
    s
}

// ---------------------------------------------------------------------------------
// C08: hold / keepalive timing
// ---------------------------------------------------------------------------------

//@ id=C08 tier=quick cap=600
//@ fn: fsm::Connection::on_open
//@ bound: OPEN received in OpenSent for ALL pairs (local hold time in {0} U [3,65535], remote hold time in {0} U [3,65535]); unwind 8
//@ desc: negotiated hold time = min(local, remote); keepalive = negotiated/3; both timers are armed iff the negotiated value is non-zero
#[kani::proof]
#[kani::unwind(8)]
fn c08_negotiate() {
    let mut c = any_connection();
    c.state = State::OpenSent;
    let lh: u16 = kani::any();
    kani::assume(lh != 1 && lh != 2);
    c.local_holdtime = lh as u64;
    c.expected_remote_asn = 0;
    let rh: u16 = kani::any();
    kani::assume(rh != 1 && rh != 2);
    let open = bgp::Open {
        as_number: kani::any(),
        holdtime: HoldTime::new(rh).unwrap(),
        router_id: kani::any(),
        capability: Vec::new(),
    };
    let out = c.on_open(open);
    let s = summarize(&out);
    let want = if lh < rh { lh } else { rh } as u64;
    assert!(c.state == State::OpenConfirm);
    assert!(c.negotiated_holdtime == want);
    if want != 0 {
        assert!(c.keepalive_interval == want / 3);
        assert!(s.set_hold == Some(want) && s.n_set_hold == 1);
        assert!(s.set_ka == Some(want / 3) && s.n_set_ka == 1);
        assert!(want / 3 >= 1);
    } else {
        assert!(s.n_set_ka == 0);
        // a zero SetHoldTimer (= disable, see the driver model below) is the only one allowed
        assert!(s.n_set_hold == 0 || s.set_hold == Some(0));
    }
    kani::cover!(want == 0 && lh != 0);
    kani::cover!(want == 3);
    kani::cover!(want == 65535);
    core::mem::forget(out);
    core::mem::forget(c);
}

/// The driver's timer handling, mirrored from daemon/src/event/mod.rs apply_outputs /
/// run_select (vcheck verifies that the mirrored source lines are still present):
///   SetHoldTimer(n):      n == 0 -> hold deadline = never;  else deadline = now + n
///   SetKeepaliveTimer(n): deadline = now + n
///   deadline reached     -> Input::HoldTimerExpired / KeepaliveTimerExpired is fed back
#[derive(Clone, Copy)]
struct Timers {
    hold: Option<u64>,
    ka: Option<u64>,
}

fn apply_timers(t: &mut Timers, now: u64, out: &Vec<Output>) -> Summary {
    let s = summarize(out);
    // outputs are applied in order; the last Set* wins (summarize keeps the last value)
    if s.n_set_hold > 0 {
        let n = s.set_hold.unwrap();
        t.hold = if n == 0 { None } else { Some(now + n) };
    }
    if s.n_set_ka > 0 {
        t.ka = Some(now + s.set_ka.unwrap());
    }
    s
}

//@ id=C08 tier=quick cap=1500 mem=40
//@ fn: fsm::Connection::on_connected, on_open, on_keepalive, on_update, on_update_sent, on_keepalive_timer_expired, on_hold_timer_expired
//@ bound: timed run of 5 events from a fresh connection: connect, OPEN (hold times symbolic in {0} U [3,65535] on both sides), KEEPALIVE, then 2 symbolic events out of {KEEPALIVE rx, UPDATE rx, ROUTE-REFRESH rx, UPDATE tx, keepalive-timer, time passes} with symbolic non-decreasing clock; unwind 8
//@ desc: with the driver's timer model: the hold deadline always equals (time of last KEEPALIVE/UPDATE received) + negotiated, is moved by nothing else, and does not exist when the negotiated hold time is zero (the session then never dies of hold-timer expiry)
#[kani::proof]
#[kani::unwind(8)]
fn c08_timed_run() {
    let lh: u16 = kani::any();
    kani::assume(lh != 1 && lh != 2);
    let rh: u16 = kani::any();
    kani::assume(rh != 1 && rh != 2);
    let mut c = Connection::new(kani::any(), kani::any(), Vec::new(), lh as u64, 0);
    let mut t = Timers { hold: None, ka: None };
    let mut now: u64 = 0;

    let out = c.on_connected();
    apply_timers(&mut t, now, &out);
    core::mem::forget(out);

    let d1: u16 = kani::any();
    now += d1 as u64;
    kani::assume(t.hold.map_or(true, |d| now < d)); // the OPEN arrives before the OpenSent timer
    let out = c.on_open(bgp::Open {
        as_number: kani::any(),
        holdtime: HoldTime::new(rh).unwrap(),
        router_id: kani::any(),
        capability: Vec::new(),
    });
    apply_timers(&mut t, now, &out);
    core::mem::forget(out);
    let neg = (if lh < rh { lh } else { rh }) as u64;
    assert!(c.negotiated_holdtime == neg);

    let d2: u16 = kani::any();
    now += d2 as u64;
    kani::assume(t.hold.map_or(true, |d| now < d));
    let out = c.on_keepalive();
    apply_timers(&mut t, now, &out);
    core::mem::forget(out);
    assert!(c.state == State::Established);
    let mut last_rx = now;

    // after the OPEN exchange: zero disables every timer
    if neg == 0 {
        assert!(t.hold.is_none() && t.ka.is_none());
    } else {
        assert!(t.hold == Some(last_rx + neg));
    }

    let mut i = 0;
    while i < 2 {
        let d: u16 = kani::any();
        now += d as u64;
        // the driver delivers HoldTimerExpired as soon as the deadline is reached: events that
        // happen later than the deadline are not part of this run
        kani::assume(t.hold.map_or(true, |dl| now < dl));
        let ev: u8 = kani::any();
        kani::assume(ev < 6);
        let out = match ev {
            // ROUTE-REFRESH received: not a KEEPALIVE/UPDATE, must not move the deadline
            5 => c.on_route_refresh(Family::IPV4),
            0 => {
                last_rx = now;
                c.on_keepalive()
            }
            1 => {
                last_rx = now;
                c.on_update()
            }
            2 => c.on_update_sent(),
            3 => {
                kani::assume(t.ka == Some(now));
                c.on_keepalive_timer_expired()
            }
            _ => Vec::new(),
        };
        let s = apply_timers(&mut t, now, &out);
        core::mem::forget(out);
        assert!(s.session_down == 0 && c.state == State::Established);
        if neg == 0 {
            assert!(t.hold.is_none());
        } else {
            // deadline = last receipt + negotiated, whatever else happened
            assert!(t.hold == Some(last_rx + neg));
        }
        i += 1;
    }
    // expiry tears the session down exactly when nothing was received for `neg` seconds
    if let Some(dl) = t.hold {
        assert!(dl == last_rx + neg && neg != 0);
        let out = c.on_hold_timer_expired();
        let s = summarize(&out);
        assert!(s.session_down == 1 && s.down_hold);
        core::mem::forget(out);
    }
    kani::cover!(neg == 0 && lh != 0);
    kani::cover!(neg == 0 && lh == 0);
    kani::cover!(neg != 0 && last_rx > 0);
    core::mem::forget(c);
}

//@ id=C08 tier=thorough cap=600 expect=fail
//@ fn: fsm::Connection::on_keepalive
//@ bound: as c08_negotiate
//@ desc: vacuity twin - claims KEEPALIVE never re-arms the hold timer; must be refuted
#[kani::proof]
#[kani::unwind(8)]
fn c08_twin_must_fail() {
    let mut c = any_connection();
    c.state = State::Established;
    let out = c.on_keepalive();
    let s = summarize(&out);
    assert!(s.n_set_hold == 0);
    core::mem::forget(out);
    core::mem::forget(c);
}

//@ id=C07 tier=quick cap=600
//@ fn: fsm::PeerFsm::check_collision, fsm::PeerFsm::collision_winner, fsm::PeerFsm::close_connection
//@ bound: ANY two-slot PeerFsm state in which the calling role's connection has just entered OpenConfirm (other slot: empty / OpenSent / OpenConfirm / Established), identifiers full 32-bit; unwind 8
//@ desc: collision resolution called directly (fallback for PeerFsm::process, whose Output moves CBMC cannot finish): Established survives a newcomer; otherwise the connection initiated by the higher identifier survives; the loser's slot is freed; afterwards at most one connection is in OpenConfirm|Established
#[kani::proof]
#[kani::unwind(8)]
fn c07_collision_direct() {
    let mut p = any_peer_fsm();
    let role = any_role();
    let other = role.other();
    kani::assume(p.connection(role).is_some());
    kani::assume(p.state(role) == State::OpenConfirm);
    let pre_other = p.state(other);
    let other_present = p.connection(other).is_some();
    let local_id = p.local_router_id;
    let rid = p.connection(role).unwrap().remote_id;
    let loser = p.check_collision(role);
    assert!(inv(&p));
    if !other_present || !advanced(pre_other) {
        assert!(loser.is_none());
        assert!(p.state(role) == State::OpenConfirm && p.state(other) == pre_other);
    } else if pre_other == State::Established {
        assert!(loser == Some(role));
        assert!(p.connection(role).is_none() && p.state(other) == State::Established);
    } else if local_id != rid {
        let survivor = if local_id > rid { Role::Active } else { Role::Passive };
        assert!(loser == Some(survivor.other()));
        assert!(p.state(survivor) == State::OpenConfirm);
        assert!(p.connection(survivor.other()).is_none());
    } else {
        assert!(loser.is_some());
    }
    kani::cover!(loser == Some(role) && pre_other == State::OpenConfirm);
    kani::cover!(loser == Some(other));
    kani::cover!(loser.is_none() && other_present);
    core::mem::forget(p);
}

//@ id=C08 tier=quick cap=600
//@ fn: fsm::Connection::on_keepalive, fsm::Connection::on_update
//@ bound: KEEPALIVE / UPDATE received in OpenConfirm or Established with ANY negotiated hold time (incl. 0) and ANY other field values; unwind 8
//@ desc: every KEEPALIVE or UPDATE received (re-)sets the hold timer to the negotiated value - for a negotiated value of 0 that is the SetHoldTimer(0) which makes the driver disarm the 240 s OpenSent timer - and produces nothing else timer-related
#[kani::proof]
#[kani::unwind(8)]
fn c08_rx_rearms_hold_timer() {
    let mut c = any_connection();
    let st: bool = kani::any();
    c.state = if st { State::OpenConfirm } else { State::Established };
    let neg = c.negotiated_holdtime;
    let upd: bool = kani::any();
    kani::assume(!upd || !st); // UPDATE is only legal in Established
    let out = if upd { c.on_update() } else { c.on_keepalive() };
    // the number of outputs is checked before any element is read (cheap even if the vector was
    // built with conditional pushes)
    assert!(out.len() == if st { 3 } else { 1 });
    let s = summarize(&out);
    assert!(s.n_set_hold == 1 && s.set_hold == Some(neg));
    assert!(s.n_set_ka == 0 && s.session_down == 0);
    kani::cover!(neg == 0 && st);
    kani::cover!(neg != 0 && upd);
    core::mem::forget(out);
    core::mem::forget(c);
}
