// Kani harnesses for packet/src/rtc.rs (RT-constraint NLRI, RFC 4684) - the family decoder itself, below the Nlri enum wrapper.
#![allow(unused_imports, dead_code, clippy::all)]

use super::*;

struct RtcBuf {
    buf: [u8; 16],
    len: usize,
}

unsafe impl BufMut for RtcBuf {
    fn remaining_mut(&self) -> usize {
        16 - self.len
    }
    unsafe fn advance_mut(&mut self, cnt: usize) {
        assert!(self.len + cnt <= 16);
        self.len += cnt;
    }
    fn chunk_mut(&mut self) -> &mut bytes::buf::UninitSlice {
        let l = self.len;
        bytes::buf::UninitSlice::new(&mut self.buf[l..])
    }
    fn put_u8(&mut self, v: u8) {
        assert!(self.len < 16);
        self.buf[self.len] = v;
        self.len += 1;
    }
    fn put_slice(&mut self, src: &[u8]) {
        assert!(self.len + src.len() <= 16);
        let mut i = 0;
        while i < src.len() {
            self.buf[self.len + i] = src[i];
            i += 1;
        }
        self.len += src.len();
    }
}

//@ id=C03 tier=quick cap=600
//@ fn: rtc::RtcNlri::decode, rtc::RtcNlri::encode
//@ bound: ALL byte strings of length 0..=14 (every value of the length-in-bits octet); unwind 16
//@ desc: RTC NLRI decode is total; accepts exactly length 0 / 32 / 96 bits with 0 / 4 / 12 following octets present, consumes exactly 1 + that many (progress >= 1), fields from the stated offsets; encode(decode(b)) equals the consumed bytes, so decoding it again gives the same value
#[kani::proof]
#[kani::unwind(16)]
fn c03_rtc_decode_total_roundtrip() {
    let bytes: [u8; 14] = kani::any();
    let len: usize = kani::any();
    kani::assume(len <= 14);
    let mut c = std::io::Cursor::new(&bytes[..len]);
    let r = RtcNlri::decode(&mut c);
    let need: usize = if len == 0 {
        usize::MAX
    } else {
        match bytes[0] {
            0 => 1,
            32 => 5,
            96 => 13,
            _ => usize::MAX,
        }
    };
    match r {
        Ok(n) => {
            assert!(need != usize::MAX && need <= len);
            assert!(c.position() as usize == need);
            match &n.match_type {
                MatchType::Wildcard => {
                    assert!(need == 1);
                    kani::cover!(true);
                }
                MatchType::AsWildcard { origin_as } => {
                    assert!(need == 5);
                    assert!(*origin_as == u32::from_be_bytes([bytes[1], bytes[2], bytes[3], bytes[4]]));
                    kani::cover!(true);
                }
                MatchType::ExactMatch { origin_as, route_target } => {
                    assert!(need == 13);
                    assert!(*origin_as == u32::from_be_bytes([bytes[1], bytes[2], bytes[3], bytes[4]]));
                    let mut i = 0;
                    while i < 8 {
                        assert!(route_target[i] == bytes[5 + i]);
                        i += 1;
                    }
                    kani::cover!(true);
                }
            }
            let mut out = RtcBuf { buf: [0u8; 16], len: 0 };
            n.encode(&mut out);
            assert!(out.len == need);
            let mut i = 0;
            while i < 13 {
                if i < need {
                    assert!(out.buf[i] == bytes[i]);
                }
                i += 1;
            }
            let mut c2 = std::io::Cursor::new(&out.buf[..out.len]);
            let again = RtcNlri::decode(&mut c2);
            assert!(again.is_ok());
            if let Ok(n2) = again {
                assert!(n2 == n);
            }
        }
        Err(_) => {
            assert!(need == usize::MAX || need > len);
            kani::cover!(len == 12 && bytes[0] == 96);
        }
    }
}
