#!/usr/bin/env python3
"""Regenerates /verif/MANIFEST.json from kani/claims.json (per-property texts) and the harness
registry.  A property is claimed iff claims.json has an entry with "claimed": true AND at least one
quick harness is registered for it; everything else is listed under not_applicable."""
import json
import os
import subprocess
import sys

VERIF = os.path.dirname(os.path.dirname(os.path.abspath(__file__)))
claims = json.load(open(os.path.join(VERIF, "kani", "claims.json")))
out = subprocess.run([os.path.join(VERIF, "vcheck"), "--list"], capture_output=True, text=True).stdout
quick = {}
for line in out.strip().split("\n"):
    if not line.strip():
        continue
    pid, tier = line.split()[:2]
    if tier == "quick":
        quick[pid] = quick.get(pid, 0) + 1

props = [json.loads(l)["id"] for l in open(os.path.join(VERIF, "properties.jsonl"))]
checks = []
na = []
for pid in props:
    c = claims.get(pid, {})
    if c.get("claimed") and quick.get(pid):
        checks.append({
            "property_id": pid,
            "quick_cmd": "./vcheck %s --tier quick" % pid,
            "thorough_cmd": "./vcheck %s --tier thorough" % pid,
            "evidence_file": "evidence/%s.json" % pid,
            "replay_cmd_template": "./vcheck %s --replay {path}" % pid,
            "engine": "kani-cbmc",
            "level_claimed": {
                "category": "model_checking",
                "text": c["text"],
                "design_ref": c.get("design_ref", "DESIGN.md section 4, " + pid),
            },
            "level_note": c["note"],
            "technique": c.get("technique", "bounded model checking of the real Rust code with Kani 0.68 / CBMC 6.11 "
                                            "(SAT, CaDiCaL): symbolic inputs/pre-states, assertions vs. reference oracle"),
        })
    else:
        na.append({"property_id": pid, "reason": c.get("na_reason", "no check built yet")})

manifest = {
    "version": 1,
    "setup_cmd": "./vcheck --setup",
    "hooks": {
        "guard": "kani",
        "enable": "cargo kani on a scratch overlay (rsync copy) of /repo's working tree with harness modules "
                  "appended under #[cfg(kani)]; no guarded code is committed to /repo",
        "baseline_off_cmd": "cd /repo && cargo nextest run --workspace --no-fail-fast --offline || "
                            "(cd /repo && cargo test --workspace --no-fail-fast --offline)",
        "source_commits": [],
        "add_only": True,
    },
    "engines": [{
        "name": "kani-cbmc",
        "path": "vcheck",
        "serves_properties": [c["property_id"] for c in checks],
        "kind_free_text": "Kani 0.68.0 -> CBMC 6.11.0 (CaDiCaL) bounded model checking of the repository's own "
                          "Rust code, compiled from /repo's working tree on every run; counterexamples are "
                          "replayed natively (cargo kani playback) before a VIOLATION is printed",
    }],
    "checks": checks,
    "not_applicable": na,
    "notes": claims.get("_notes", ""),
}
json.dump(manifest, open(os.path.join(VERIF, "MANIFEST.json"), "w"), indent=1)
print("claimed:", [c["property_id"] for c in checks])
print("n/a:", [n["property_id"] for n in na])
