// replay for property C09, harness c09_as_loop (module d_export)
// run: ./vcheck C09 --replay /verif/replays/C09/c09_as_loop-66780230e0.rs
/// Test generated for harness `event::export::verif_d_export::c09_as_loop` 
///
/// Check for `assertion`: "assertion failed: got == want"

#[test]
fn kani_concrete_playback_c09_as_loop_6998518963473996140() {
    let concrete_vals: Vec<Vec<u8>> = vec![
        // 3
        vec![3],
        // 2113929212
        vec![252, 255, 255, 125],
        // 3
        vec![3],
        // 2113929212
        vec![252, 255, 255, 125],
        // 0
        vec![0, 0, 0, 0],
        // 2147483644
        vec![252, 255, 255, 127],
    ];
    kani::concrete_playback_run(concrete_vals, c09_as_loop);
}

/// Test generated for harness `event::export::verif_d_export::c09_as_loop` 
///
/// Check for `cover`: "cover condition: got && !has(local)"

#[test]
fn kani_concrete_playback_c09_as_loop_1770862292755348274() {
    let concrete_vals: Vec<Vec<u8>> = vec![
        // 3
        vec![3],
        // 2097021440
        vec![0, 2, 254, 124],
        // 3
        vec![3],
        // 4261412863
        vec![255, 255, 255, 253],
        // 50462207
        vec![255, 253, 1, 3],
        // 2097021440
        vec![0, 2, 254, 124],
    ];
    kani::concrete_playback_run(concrete_vals, c09_as_loop);
}

/// Test generated for harness `event::export::verif_d_export::c09_as_loop` 
///
/// Check for `cover`: "cover condition: !got"

#[test]
fn kani_concrete_playback_c09_as_loop_13342570999633874810() {
    let concrete_vals: Vec<Vec<u8>> = vec![
        // 3
        vec![3],
        // 0
        vec![0, 0, 0, 0],
        // 3
        vec![3],
        // 50462206
        vec![254, 253, 1, 3],
        // 50462207
        vec![255, 253, 1, 3],
        // 0
        vec![0, 0, 0, 0],
    ];
    kani::concrete_playback_run(concrete_vals, c09_as_loop);
}
